//@ unit cm_node_any
//@ props C08 C01
//@ kind L
//@ entry h_cm_node_any
//@ note L: loop-free, complete: CMAny (the wildcard position: xs:any with namespace constraint ##any / ##other / a namespace: constructor, calcFirstPos, calcLastPos, getURI, getPosition, orphanChild) + the real CMNode base, for EVERY node type value, URI id, position value (also the epsilon marker and positions beyond the state count), maxStates = 1..32
//@ note obligation (XML Schema Structures 3.10 wildcard particle: matches exactly one element information item; position automaton): a wildcard position is NOT nullable and its first and last position sets are the singleton {its own position}; with the epsilon marker it is nullable and has empty sets. A type whose low nibble is not Any / Any_Other / Any_NS raises RuntimeException(CM_NotValidSpecTypeForNode)
//@ note model (contracts/cm_node.inc): CMStateSet = 32-bit word; setBit / zeroBits are model functions with the semantics proved of the real class in cm_stateset_ops (setBit beyond the bit count raises ArrayIndexOutOfBoundsException)
//@ note NOT covered: CMAny::setPosition (no caller in /repo), destructor
#define VERIF_DEFINE_GHOSTS
#include "verif_prelude.h"
//@ include cm_node.inc
//@ struct src/xercesc/validators/common/CMAny.hpp CMAny

/*@extract src/xercesc/validators/common/CMAny.cpp CMAny::CMAny
sub (?<![\w.>:])CMNode\( => CMNode_CMNode(&THISNODE,
sub (?<![\w.>])fIsNullable\b => THISNODE.fIsNullable
@*/
/*@extract src/xercesc/validators/common/CMAny.cpp CMAny::getURI
@*/
/*@extract src/xercesc/validators/common/CMAny.cpp CMAny::getPosition
@*/
/*@extract src/xercesc/validators/common/CMAny.cpp CMAny::orphanChild
@*/
/*@extract src/xercesc/validators/common/CMAny.cpp CMAny::calcFirstPos
sub* (?<![\w.>])isNullable\(\) => CMNode_isNullable(&THISNODE)
method toSet.zeroBits => SS_zeroBits
method toSet.setBit => SS_setBit
throws SS_setBit
@*/
/*@extract src/xercesc/validators/common/CMAny.cpp CMAny::calcLastPos
sub* (?<![\w.>])isNullable\(\) => CMNode_isNullable(&THISNODE)
method toSet.zeroBits => SS_zeroBits
method toSet.setBit => SS_setBit
throws SS_setBit
@*/

static void v_calcFirstPos(struct CMNode *self, CMStateSet *toSet) { if (self == &THISNODE) CMAny_calcFirstPos(toSet); else child_stub_calc(self, toSet, 0); }
static void v_calcLastPos(struct CMNode *self, CMStateSet *toSet)  { if (self == &THISNODE) CMAny_calcLastPos(toSet);  else child_stub_calc(self, toSet, 1); }

void h_cm_node_any(void)
{
  unsigned maxStates, position, uri; int type;
  VERIF_INPUT(maxStates); VERIF_INPUT(position); VERIF_INPUT(uri); VERIF_INPUT(type); VERIF_INPUT(SELF);
  cm_node_setup_children(maxStates);
  CMAny_CMAny(type, uri, position, maxStates, (MemoryManager *)0);
  VERIF_CANARY("after constructor");
  int t = type & 0x0f;
  if (t != ContentSpecNode_Any && t != ContentSpecNode_Any_Other && t != ContentSpecNode_Any_NS) {
    __CPROVER_assert(verif_thrown && verif_throw_type == VT_RuntimeException && verif_throw_code == XMLExcepts_CM_NotValidSpecTypeForNode, "C01: a wildcard node of a non-wildcard type raises RuntimeException(CM_NotValidSpecTypeForNode)");
    return;
  }
  __CPROVER_assert(!verif_thrown, "C01: constructing a wildcard node does not throw");
  __CPROVER_assert(CMNode_getType(&THISNODE) == type && THISNODE.fMaxStates == maxStates && THISNODE.fFirstPos == 0 && THISNODE.fLastPos == 0 && CMAny_getPosition() == position && CMAny_getURI() == uri, "C08: the node records its type (with the processContents bits), namespace id, position and state count; no position set yet");
  int eps = (position == epsilonNode);
  __CPROVER_assert((CMNode_isNullable(&THISNODE) != 0) == eps, "C08: nullable(wildcard) = false for a position, true for the epsilon marker");
  CMStateSet *f = CMNode_getFirstPos(&THISNODE);
  int thrown_f = verif_thrown, tt = verif_throw_type; verif_thrown = 0;
  CMStateSet *l = CMNode_getLastPos(&THISNODE);
  VERIF_CANARY("after getFirstPos/getLastPos");
  __CPROVER_assert(!SS_BADCOUNT && f == THISNODE.fFirstPos && l == THISNODE.fLastPos && f != l && f != 0 && l != 0, "C01: the node owns two position sets created with its state count");
  if (eps) {
    VERIF_CANARY("epsilon reachable");
    __CPROVER_assert(!thrown_f && !verif_thrown && *f == 0 && *l == 0, "C08: firstpos(epsilon) = lastpos(epsilon) = {}");
  } else if (position < maxStates) {
    VERIF_CANARY("wildcard position reachable");
    __CPROVER_assert(!thrown_f && !verif_thrown && *f == (1u << position) && *l == (1u << position), "C08: firstpos(wildcard i) = lastpos(wildcard i) = {i}");
  } else {
    VERIF_CANARY("position beyond the state count reachable");
    __CPROVER_assert(thrown_f && tt == VT_ArrayIndexOutOfBoundsException && verif_thrown && verif_throw_type == VT_ArrayIndexOutOfBoundsException && *f == 0 && *l == 0,
                     "C01: a position beyond the state count raises ArrayIndexOutOfBoundsException, no bit outside the set is written");
    return;
  }
  CMAny_orphanChild();
  unsigned nsets = SS_USED;
  __CPROVER_assert(CMNode_getFirstPos(&THISNODE) == f && CMNode_getLastPos(&THISNODE) == l && *f == (eps ? 0u : (1u << position)) && *l == *f && SS_USED == nsets && !verif_thrown && N_DELETED == 0,
                   "C08: orphanChild is a no-op on a wildcard node; the cached position sets are returned unchanged");
}
