//@ unit rdr_skipSpaces
//@ props C01 C04 C03
//@ kind P
//@ def all kCharBufSize=4
//@ rebind src/xercesc/internal/XMLReader.hpp kCharBufSize
//@ enforce XMLReader_skipSpaces
//@ replace XMLReader_refreshCharBuffer
//@ replace XMLReader_isWhitespace
//@ cbmc all --arrays-uf-always
//@ entry h_skipSpaces
//@ note isWhitespace is replaced by a contract over an arbitrary (nondet) predicate table WS; the tables behind it are checked against the XML productions in the chartab_* units
//@ note refreshCharBuffer is replaced by the contract proved in unit rdr_refreshCharBuffer; handleEOL is NOT replaced: its real body is extracted and verified in place (what it does to ONE white-space character is proved against spec/eol.h in rdr_skippedSpace, which shares the dispatch test)
//@ note the loops wait on the stream (`do { ... } while (refreshCharBuffer())`): no decreases clause; each round either consumes a character, or returns, or ends on end-of-data
//@ note line tracking is stated as: the line number changes only if a line-end character (CR, LF, or NEL / LSEP under the 1.1 rules) was seen -- a per-character count would need a ghost the code cannot maintain
#define VERIF_DEFINE_GHOSTS
#include "verif_prelude.h"
#include "eol.h"
//@ enum src/xercesc/internal/XMLReader.hpp Sources - scope=XMLReader
//@ enum src/xercesc/internal/XMLReader.hpp XMLVersion - scope=XMLReader
//@ struct src/xercesc/internal/XMLReader.hpp XMLReader only=auto enums=Sources,XMLVersion
//@ include XMLReader_ri.inc
#define EXT (fSource == Source_External)
#define VERIF_REFILL XMLReader_refreshCharBuffer
_Bool WS[65536];
/*@extract src/xercesc/internal/XMLReader.hpp XMLReader::isWhitespace
declonly
contract
__CPROVER_requires(1)
__CPROVER_assigns()
__CPROVER_ensures(__CPROVER_return_value == WS[toCheck])
@*/
//@ include XMLReader_eolinline.inc

/*@extract src/xercesc/internal/XMLReader.cpp XMLReader::skipSpaces
ret false
call refreshCharBuffer => XMLReader_refreshCharBuffer
call isWhitespace => XMLReader_isWhitespace
call handleEOL => XMLReader_handleEOL
throws XMLReader_refreshCharBuffer XMLReader_handleEOL
contract
__CPROVER_requires(RI_RDR && !verif_thrown && G == 0)
__CPROVER_requires(__CPROVER_w_ok(skippedSomething_p, sizeof(*skippedSomething_p)))
__CPROVER_assigns(*skippedSomething_p, fCurLine, fCurCol, fCharIndex, fCharsAvail, fNoMore, __CPROVER_object_upto(fCharBuf, sizeof(fCharBuf)), verif_thrown, verif_throw_type, verif_throw_code)
/* C01 */
__CPROVER_ensures(RI_RDR && (verif_thrown ==> !__CPROVER_return_value))
/* true: stopped in front of a character that is not white space; false: end of data */
__CPROVER_ensures((!verif_thrown && __CPROVER_return_value) ==> (fCharIndex < fCharsAvail && !WS[fCharBuf[fCharIndex]]))
__CPROVER_ensures((!verif_thrown && !__CPROVER_return_value) ==> fCharIndex == fCharsAvail)
/* the flag is only ever raised; position untouched means nothing was skipped */
__CPROVER_ensures(__CPROVER_old(*skippedSomething_p) ==> *skippedSomething_p)
__CPROVER_ensures((!*skippedSomething_p) ==> (fCurLine == __CPROVER_old(fCurLine) && fCurCol == __CPROVER_old(fCurCol)))
loop 1
__CPROVER_assigns(*skippedSomething_p, fCurLine, fCurCol, fCharIndex, fCharsAvail, fNoMore, __CPROVER_object_upto(fCharBuf, sizeof(fCharBuf)), verif_thrown, verif_throw_type, verif_throw_code)
__CPROVER_loop_invariant(RI_RDR && !verif_thrown)
__CPROVER_loop_invariant(__CPROVER_loop_entry(*skippedSomething_p) ==> *skippedSomething_p)
__CPROVER_loop_invariant((!*skippedSomething_p) ==> (fCurLine == __CPROVER_loop_entry(fCurLine) && fCurCol == __CPROVER_loop_entry(fCurCol)))
loop 2
__CPROVER_assigns(*skippedSomething_p, fCurLine, fCurCol, fCharIndex, fCharsAvail, fNoMore, __CPROVER_object_upto(fCharBuf, sizeof(fCharBuf)), verif_thrown, verif_throw_type, verif_throw_code)
__CPROVER_loop_invariant(RI_RDR && !verif_thrown)
__CPROVER_loop_invariant(__CPROVER_loop_entry(*skippedSomething_p) ==> *skippedSomething_p)
__CPROVER_loop_invariant((!*skippedSomething_p) ==> (fCurLine == __CPROVER_loop_entry(fCurLine) && fCurCol == __CPROVER_loop_entry(fCurCol)))
@*/

bool SKIPPED;
void h_skipSpaces(void)
{
  VERIF_INPUT(SELF);
  VERIF_INPUT(SKIPPED);
  _Bool inDecl; VERIF_INPUT(inDecl);
  verif_thrown = 0;
  XMLReader_skipSpaces(&SKIPPED, inDecl);
  VERIF_CANARY("after call");
}
