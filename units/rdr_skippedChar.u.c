//@ unit rdr_skippedChar
//@ props C01 C04 C03
//@ kind L
//@ def all kCharBufSize=4
//@ rebind src/xercesc/internal/XMLReader.hpp kCharBufSize
//@ enforce XMLReader_skippedChar
//@ enforce XMLReader_skipIfQuote
//@ replace XMLReader_refreshCharBuffer
//@ entry h_skippedChar
//@ note refreshCharBuffer is replaced by the contract proved in unit rdr_refreshCharBuffer; the calls go through the ghost shim of contracts/XMLReader_refill_obs.inc, which records what each refill returned and delivered
//@ note skippedChar is only called with characters that are not line ends (callers pass markup characters), so "column + 1" is the whole position update
#define VERIF_DEFINE_GHOSTS
#include "verif_prelude.h"
//@ struct src/xercesc/internal/XMLReader.hpp XMLReader only=auto
//@ include XMLReader_ri.inc
//@ include XMLReader_refill_obs.inc
/* logical unread sequence: U[0] = old fCharBuf[fCharIndex] if there was a spare character, else the first character of the refill */
#define O_IDX  __CPROVER_old(fCharIndex)
#define O_AV   __CPROVER_old(fCharsAvail)
#define O_B0   __CPROVER_old(fCharBuf[(fCharIndex < kCharBufSize) ? fCharIndex : 0])
#define HAD0   (O_IDX < O_AV)
#define U0     ((XMLCh)(HAD0 ? O_B0 : RF1_C0))
#define GOT0   (HAD0 || (RF_N >= 1 && RF1_RET))
#define POS0   (HAD0 ? O_IDX : (XMLSize_t)0)     /* where U[0] sits after the call */

/*@extract src/xercesc/internal/XMLReader.cpp XMLReader::skippedChar
ret false
call refreshCharBuffer => XMLReader_refreshCharBuffer_obs
throws XMLReader_refreshCharBuffer_obs
contract
__CPROVER_requires(RI_RDR && !verif_thrown && G == 0 && RF_N == 0 && kCharBufSize >= 2)
__CPROVER_assigns(fCurCol, fCharIndex, fCharsAvail, fNoMore, __CPROVER_object_upto(fCharBuf, sizeof(fCharBuf)), RF_GHOSTS, verif_thrown, verif_throw_type, verif_throw_code)
__CPROVER_ensures(RI_RDR && (verif_thrown ==> !__CPROVER_return_value))
__CPROVER_ensures(RF_N == (HAD0 ? 0 : 1))
/* the character is skipped iff it is there and is the wanted one -- wherever the buffer ended */
__CPROVER_ensures(!verif_thrown ==> __CPROVER_return_value == (GOT0 && U0 == toSkip))
__CPROVER_ensures((!verif_thrown && HAD0) ==> fCharsAvail == O_AV)
__CPROVER_ensures((!verif_thrown && !HAD0 && GOT0) ==> (fCharsAvail == RF1_AVAIL && fCharBuf[0] == RF1_C0))
__CPROVER_ensures(__CPROVER_return_value ==> (fCharIndex == POS0 + 1 && fCurCol == __CPROVER_old(fCurCol) + 1))
/* refused: nothing consumed, the unread sequence still starts at U[0] */
__CPROVER_ensures((!verif_thrown && !__CPROVER_return_value) ==> (fCurCol == __CPROVER_old(fCurCol) && (GOT0 ? fCharIndex == POS0 : fCharIndex == fCharsAvail)))
@*/

/*@extract src/xercesc/internal/XMLReader.cpp XMLReader::skipIfQuote
ret false
call refreshCharBuffer => XMLReader_refreshCharBuffer_obs
throws XMLReader_refreshCharBuffer_obs
contract
__CPROVER_requires(RI_RDR && !verif_thrown && G == 0 && RF_N == 0 && kCharBufSize >= 2)
__CPROVER_requires(__CPROVER_w_ok(chGotten_p, sizeof(*chGotten_p)))
__CPROVER_assigns(*chGotten_p, fCurCol, fCharIndex, fCharsAvail, fNoMore, __CPROVER_object_upto(fCharBuf, sizeof(fCharBuf)), RF_GHOSTS, verif_thrown, verif_throw_type, verif_throw_code)
__CPROVER_ensures(RI_RDR && (verif_thrown ==> !__CPROVER_return_value))
__CPROVER_ensures(RF_N == (HAD0 ? 0 : 1))
__CPROVER_ensures(!verif_thrown ==> __CPROVER_return_value == (GOT0 && (U0 == chDoubleQuote || U0 == chSingleQuote)))
__CPROVER_ensures((!verif_thrown && GOT0) ==> *chGotten_p == U0)
__CPROVER_ensures((!verif_thrown && !GOT0) ==> *chGotten_p == __CPROVER_old(*chGotten_p))
__CPROVER_ensures((!verif_thrown && HAD0) ==> fCharsAvail == O_AV)
__CPROVER_ensures((!verif_thrown && !HAD0 && GOT0) ==> (fCharsAvail == RF1_AVAIL && fCharBuf[0] == RF1_C0))
__CPROVER_ensures(__CPROVER_return_value ==> (fCharIndex == POS0 + 1 && fCurCol == __CPROVER_old(fCurCol) + 1))
__CPROVER_ensures((!verif_thrown && !__CPROVER_return_value) ==> (fCurCol == __CPROVER_old(fCurCol) && (GOT0 ? fCharIndex == POS0 : fCharIndex == fCharsAvail)))
@*/

XMLCh CH;
void h_skippedChar(void)
{
  VERIF_INPUT(SELF);
  VERIF_INPUT(CH);
  XMLCh toSkip; VERIF_INPUT(toSkip);
  _Bool which; VERIF_INPUT(which);
  verif_thrown = 0; RF_N = 0;
  if (which) XMLReader_skippedChar(toSkip); else XMLReader_skipIfQuote(&CH);
  VERIF_CANARY("after call");
}
