//@ unit ser_cls_XMLAbstractDoubleFloat
//@ props C16
//@ kind L
//@ entry h_ser_cls_XMLAbstractDoubleFloat
//@ note L: loop-free; the real body of XMLAbstractDoubleFloat::serialize runs twice on one object: store mode onto the tape, then -- after the whole object has been given arbitrary values again -- load mode from the tape; every member value is symbolic (full range of its real type)
//@ note tape engine (contracts/ser_tape.inc): operator<< / operator>> / writeSize / readSize / writeString / readString and the sub-object serialisers (XTemplateSerializer::storeObject/loadObject, DatatypeValidator::storeDV/loadDV, Base::serialize ...) are trusted stubs that record / check (type tag, value); the tag of a streamed operand comes from its REAL type (member types from the real class declaration, casts from the code) via _Generic; strings, containers and pointers to serialisable objects are opaque ids (the pointer value stands for the object; loading yields the id that was stored); the byte-level engine is the subject of units ser_primitives, ser_fillflush, ser_rawbytes
//@ note compared after load (store then load restores the value): fValue, fType, fDataConverted, fDataOverflowed, fSign, fRawData; NOT compared: fFormattedString (cache of the canonical text: not stored, must be null after load -- checked), fMemoryManager (not persistent state: the loading object keeps its own)
#define VERIF_DEFINE_GHOSTS
#include "verif_prelude.h"
//@ include ser_tape.inc
typedef int LiteralType;
#define XMLNumber_serialize(e) ENG_BASE(XMLNumber)
//@ struct src/xercesc/util/XMLAbstractDoubleFloat.hpp XMLAbstractDoubleFloat only=auto enums=LiteralType

/*@extract src/xercesc/util/XMLAbstractDoubleFloat.cpp XMLAbstractDoubleFloat::serialize
streamops serEng
method serEng.isStoring => ENG_isStoring
method serEng.isLoading => ENG_isLoading
method serEng.writeSize => ENG_writeSize
method serEng.readSize => ENG_readSize
method serEng.writeString => ENG_writeString
method serEng.readString => ENG_readString
method serEng.writeUInt64 => ENG_writeUInt64
method serEng.readUInt64 => ENG_readUInt64
method serEng.writeInt64 => ENG_writeInt64
method serEng.readInt64 => ENG_readInt64
method serEng.getMemoryManager => ENG_getMemoryManager
@*/

#define FIELDS(X) X(fValue) X(fType) X(fDataConverted) X(fDataOverflowed) X(fSign) X(fRawData)

void h_ser_cls_XMLAbstractDoubleFloat(void)
{
  VERIF_INPUT(SELF); TAPE_INIT();
  VERIF_ASSUME(fValue == fValue);   /* the numeric value is a number (NaN literals are recorded in fType, see XMLAbstractDoubleFloat::init); the tape carries all 64 bits in any case */
  FIELDS(SER_FIELD_SAVE)
  verif_thrown = 0;
  TAPE_BEGIN_STORE();
  XMLAbstractDoubleFloat_serialize(&ENGINE);
  VERIF_INPUT(SELF);                      /* the object that is loaded into: arbitrary contents */
  TAPE_BEGIN_LOAD();
  XMLAbstractDoubleFloat_serialize(&ENGINE);
  VERIF_CANARY("after store and load");
  __CPROVER_assert(!verif_thrown, "C16: serialize does not throw by itself");
  TAPE_END_CHECK();
  FIELDS(SER_FIELD_CHECK)
  __CPROVER_assert(fFormattedString == 0, "C16: the cached formatted string, which is not serialised, is null after load");
}
