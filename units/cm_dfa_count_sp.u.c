//@ unit cm_dfa_count_sp
//@ props C08 C01
//@ kind W
//@ def all CM_SPECIAL=1
//@ def quick NCH=4 NST=3 NSYM=3 NALPHA=3
//@ def thorough NCH=5 NST=3 NSYM=3 NALPHA=3
//@ cbmc quick --unwind 5 --unwinding-assertions
//@ cbmc thorough --unwind 6 --unwinding-assertions
//@ entry h_cm_dfa_count_sp
//@ note W: DFAContentModel::validateContentSpecial + handleRepetitions with counting states (fCountingStates != 0): complete for every child sequence of length <= NCH and EVERY table with NST states / NSYM symbols satisfying RI_dfa + RI_count (contracts/cm_dfa_body.inc, cm_dfa_count_harness.inc), every minOccurs/maxOccurs in 0..NCH+1 and unbounded, against the counting-DFA reference semantics written in the harness
//@ note element-map ORDER assumption as in cm_dfa_count
//@ note assumptions: run-determinism (at most one ENABLED candidate per step: Unique Particle Attribution with counters), schema mode (no counting states in a DTD model), RI_count (a counting state loops on its own repeating symbol only, min <= max)
//@ note NOT in scope: buildDFA (how fCountingStates / fElemMap are filled: see findings/dfa_counting_same_name_particles), ComplexTypeInfo::expandContentModel, checkUniqueParticleAttribution, SchemaValidator, TraverseSchema
#define VERIF_DEFINE_GHOSTS
#include "verif_prelude.h"
#define NSG NSYM
//@ include cm_common.inc
//@ include cm_dfa_body.inc
//@ include cm_dfa_count_harness.inc

void h_cm_dfa_count_sp(void) { cm_dfa_count_run(1); }
