//@ unit rdr_movePlainContentChars
//@ props C01 C04 C03
//@ kind P
//@ def quick kCharBufSize=4
//@ def thorough kCharBufSize=8
//@ rebind src/xercesc/internal/XMLReader.hpp kCharBufSize
//@ enforce XMLReader_movePlainContentChars
//@ replace XMLBuffer_append_n
//@ cbmc all --arrays-uf-always
//@ entry h_movePlainContentChars
//@ note the 64K character-class table behind fgCharCharsTable is ARBITRARY (nondet) here: the unit proves that exactly the leading run of characters whose gPlainContentCharMask bit is set is moved; what the bit means is proved in the chartab_* units
//@ note abstract XMLBuffer: length assumed <= 2^40 characters (machine arithmetic; OutOfMemory not modelled)
//@ note no refill inside this function: C04 content = it never looks beyond fCharsAvail (a run that reaches the end of the buffer stops there and is continued by the caller after its own refill)
#define VERIF_DEFINE_GHOSTS
#include "verif_prelude.h"
//@ table src/xercesc/util/XMLChar.hpp gPlainContentCharMask
//@ struct src/xercesc/internal/XMLReader.hpp XMLReader only=fCharIndex,fCharsAvail,fCharBuf,fNoMore,fCurCol
//@ include XMLReader_ri.inc
//@ include XMLBuffer_abs.inc
struct { XMLByte a[0x10000]; } TAB;     /* arbitrary table (harness input) */
/* the member pointer fgCharCharsTable (set by setXMLVersion to one of the two static tables) is modelled as the table itself */
#define fgCharCharsTable (TAB.a)
#define PLAIN(c) ((TAB.a[(XMLCh)(c)] & gPlainContentCharMask) != 0)
XMLSize_t BUFLEN0;                      /* entry ghost (harness-owned, never assigned) */

/*@extract src/xercesc/internal/XMLReader.hpp XMLReader::movePlainContentChars
method dest.append => XMLBuffer_append_n
contract
__CPROVER_requires(RI_RDR && !verif_thrown && BUFLEN <= VERIF_BUFLEN_MAX && BUFLEN0 == BUFLEN)
__CPROVER_assigns(fCharIndex, fCurCol, BUFLEN, BUFCH)
/* C01 */
__CPROVER_ensures(RI_RDR && !verif_thrown && fCharIndex >= __CPROVER_old(fCharIndex))
/* C03: as many characters appended as consumed, column advanced by exactly that many */
__CPROVER_ensures(BUFLEN - BUFLEN0 == fCharIndex - __CPROVER_old(fCharIndex) && fCurCol == __CPROVER_old(fCurCol) + (fCharIndex - __CPROVER_old(fCharIndex)))
/* only plain content characters are moved ... */
__CPROVER_ensures((GA >= BUFLEN0 && GA < BUFLEN) ==> PLAIN(BUFCH))
__CPROVER_ensures((GA < BUFLEN0) ==> BUFCH == __CPROVER_old(BUFCH))
/* ... and all of the leading run: it stops at the end of the buffer or in front of a character that is not plain */
__CPROVER_ensures(fCharIndex < fCharsAvail ==> !PLAIN(fCharBuf[fCharIndex]))
loop 1
__CPROVER_assigns(count, cursor)
__CPROVER_loop_invariant(count <= chunkSize && __CPROVER_same_object(cursor, fCharBuf) && __CPROVER_POINTER_OFFSET(cursor) == OFS_XMLReader_fCharBuf + (fCharIndex + count) * sizeof(XMLCh))
__CPROVER_loop_invariant((GA >= BUFLEN && GA - BUFLEN < count) ==> PLAIN(fCharBuf[(fCharIndex + (GA - BUFLEN) < kCharBufSize) ? fCharIndex + (GA - BUFLEN) : 0]))
__CPROVER_decreases(chunkSize - count)
@*/

struct XMLBuffer DEST;
void h_movePlainContentChars(void)
{
  VERIF_INPUT(SELF);
  VERIF_INPUT(TAB);
  verif_thrown = 0;
  XMLReader_movePlainContentChars(&DEST);
  VERIF_CANARY("after call");
}
