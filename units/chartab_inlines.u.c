//@ unit chartab_inlines
//@ props C02
//@ kind L
//@ cbmc all --arrays-uf-always
//@ entry h_chartab_inlines
//@ note L: loop-free, symbolic XMLCh c (and second unit c2), symbolic XML version. The two 64K tables are ARBITRARY (nondet) here: the unit proves that each inline predicate tests the bit of ITS class in the table of the reader's version (XMLReader: the table selected by setXMLVersion); what the bits mean is proved against the productions in units chartab_10 / chartab_11
//@ note two-argument forms of XMLChar1_0 / XMLChar1_1 ("surrogate pair is assumed if second parameter is not null", XMLChar.hpp): for toCheck2 != 0 the result must be the class membership of the code point encoded by the pair (false if the two units are not a well-formed pair), computed from the productions in spec/xmlchars.h
//@ note isXMLLetter: [84] Letter exists only up to the Fourth Edition (no supplementary characters); xerces documents it as "FirstNameChar minus ':' and '_'" and that is what is checked
#define VERIF_DEFINE_GHOSTS
#include "verif_prelude.h"
#include "xmlchars.h"

//@ table src/xercesc/util/XMLChar.hpp gNCNameCharMask
//@ table src/xercesc/util/XMLChar.hpp gFirstNameCharMask
//@ table src/xercesc/util/XMLChar.hpp gNameCharMask
//@ table src/xercesc/util/XMLChar.hpp gPlainContentCharMask
//@ table src/xercesc/util/XMLChar.hpp gSpecialStartTagCharMask
//@ table src/xercesc/util/XMLChar.hpp gControlCharMask
//@ table src/xercesc/util/XMLChar.hpp gXMLCharMask
//@ table src/xercesc/util/XMLChar.hpp gWhitespaceCharMask
//@ enum src/xercesc/internal/XMLReader.hpp XMLVersion - scope=XMLReader
//@ struct src/xercesc/internal/XMLReader.hpp XMLReader only=auto enums=XMLVersion

typedef int XMLVersion;
/* arbitrary tables (harness inputs) */
struct { XMLByte a[0x10000]; } T10, T11;
#define fgCharCharsTable1_0 (T10.a)
#define fgCharCharsTable1_1 (T11.a)
#define XMLChar1_0_fgCharCharsTable1_0 (T10.a)
#define XMLChar1_1_fgCharCharsTable1_1 (T11.a)
_Bool XMLChar1_0_enableNEL;

/*@extract src/xercesc/internal/XMLReader.hpp XMLReader::setXMLVersion
@*/

/*@extract src/xercesc/internal/XMLReader.hpp XMLReader::isNameChar
@*/

/*@extract src/xercesc/internal/XMLReader.hpp XMLReader::isNCNameChar
@*/

/*@extract src/xercesc/internal/XMLReader.hpp XMLReader::isPlainContentChar
@*/

/*@extract src/xercesc/internal/XMLReader.hpp XMLReader::isFirstNameChar
@*/

/*@extract src/xercesc/internal/XMLReader.hpp XMLReader::isFirstNCNameChar
@*/

/*@extract src/xercesc/internal/XMLReader.hpp XMLReader::isSpecialStartTagChar
@*/

/*@extract src/xercesc/internal/XMLReader.hpp XMLReader::isXMLChar
@*/

/*@extract src/xercesc/internal/XMLReader.hpp XMLReader::isXMLLetter
@*/

/*@extract src/xercesc/internal/XMLReader.hpp XMLReader::isWhitespace
@*/

/*@extract src/xercesc/internal/XMLReader.hpp XMLReader::isControlChar
@*/

/*@extract src/xercesc/util/XMLChar.hpp XMLChar1_0::isXMLLetter
@*/

/*@extract src/xercesc/util/XMLChar.hpp XMLChar1_0::isFirstNameChar
@*/

/*@extract src/xercesc/util/XMLChar.hpp XMLChar1_0::isFirstNCNameChar
@*/

/*@extract src/xercesc/util/XMLChar.hpp XMLChar1_0::isNameChar
@*/

/*@extract src/xercesc/util/XMLChar.hpp XMLChar1_0::isNCNameChar
@*/

/*@extract src/xercesc/util/XMLChar.hpp XMLChar1_0::isPlainContentChar
@*/

/*@extract src/xercesc/util/XMLChar.hpp XMLChar1_0::isSpecialStartTagChar
@*/

/*@extract src/xercesc/util/XMLChar.hpp XMLChar1_0::isXMLChar
@*/

/*@extract src/xercesc/util/XMLChar.hpp XMLChar1_0::isControlChar
@*/

/*@extract src/xercesc/util/XMLChar.hpp XMLChar1_0::isWhitespace
pick 1
as XMLChar1_0_isWhitespace1
@*/

/*@extract src/xercesc/util/XMLChar.hpp XMLChar1_0::isWhitespace
pick 2
@*/

/*@extract src/xercesc/util/XMLChar.hpp XMLChar1_1::isXMLLetter
@*/

/*@extract src/xercesc/util/XMLChar.hpp XMLChar1_1::isFirstNameChar
@*/

/*@extract src/xercesc/util/XMLChar.hpp XMLChar1_1::isFirstNCNameChar
@*/

/*@extract src/xercesc/util/XMLChar.hpp XMLChar1_1::isNameChar
@*/

/*@extract src/xercesc/util/XMLChar.hpp XMLChar1_1::isNCNameChar
@*/

/*@extract src/xercesc/util/XMLChar.hpp XMLChar1_1::isPlainContentChar
@*/

/*@extract src/xercesc/util/XMLChar.hpp XMLChar1_1::isSpecialStartTagChar
@*/

/*@extract src/xercesc/util/XMLChar.hpp XMLChar1_1::isXMLChar
@*/

/*@extract src/xercesc/util/XMLChar.hpp XMLChar1_1::isControlChar
@*/

/*@extract src/xercesc/util/XMLChar.hpp XMLChar1_1::isWhitespace
@*/

#define CLS(tab, c, m) ((((tab)[c]) & (m)) != 0)

void h_chartab_inlines(void)
{
  XMLCh c, c2; int v;
  VERIF_INPUT(T10); VERIF_INPUT(T11); VERIF_INPUT(c); VERIF_INPUT(c2); VERIF_INPUT(v);
  /* ---- XMLReader: table selected by the version ---- */
  XMLReader_setXMLVersion(v);
  const XMLByte *tv = (v == XMLV1_1) ? T11.a : T10.a;
  __CPROVER_assert(fgCharCharsTable == tv, "C02: setXMLVersion selects the 1.1 table for XMLV1_1 and the 1.0 table otherwise");
  __CPROVER_assert(XMLReader_isNameChar(c) == CLS(tv, c, gNameCharMask), "C02: XMLReader::isNameChar tests NameChar of the reader's version");
  __CPROVER_assert(XMLReader_isNCNameChar(c) == CLS(tv, c, gNCNameCharMask), "C02: XMLReader::isNCNameChar tests NCNameChar");
  __CPROVER_assert(XMLReader_isPlainContentChar(c) == CLS(tv, c, gPlainContentCharMask), "C02: XMLReader::isPlainContentChar tests the plain-content class");
  __CPROVER_assert(XMLReader_isFirstNameChar(c) == CLS(tv, c, gFirstNameCharMask), "C02: XMLReader::isFirstNameChar tests NameStartChar");
  __CPROVER_assert(XMLReader_isFirstNCNameChar(c) == (CLS(tv, c, gFirstNameCharMask) && c != ':'), "C02: XMLReader::isFirstNCNameChar tests NameStartChar minus ':'");
  __CPROVER_assert(XMLReader_isSpecialStartTagChar(c) == CLS(tv, c, gSpecialStartTagCharMask), "C02: XMLReader::isSpecialStartTagChar tests the special-start-tag class");
  __CPROVER_assert(XMLReader_isXMLChar(c) == CLS(tv, c, gXMLCharMask), "C02: XMLReader::isXMLChar tests Char");
  __CPROVER_assert(XMLReader_isXMLLetter(c) == (CLS(tv, c, gFirstNameCharMask) && c != ':' && c != '_'), "C02: XMLReader::isXMLLetter tests NameStartChar minus ':' and '_'");
  __CPROVER_assert(XMLReader_isWhitespace(c) == CLS(tv, c, gWhitespaceCharMask), "C02: XMLReader::isWhitespace tests S");
  __CPROVER_assert(XMLReader_isControlChar(c) == CLS(tv, c, gControlCharMask), "C02: XMLReader::isControlChar tests the control class");
  VERIF_CANARY("after call");

  /* ---- XMLChar1_0 / XMLChar1_1: second unit 0 -> the class bit of the own table; otherwise the pair's code point ---- */
  uint16_t pr[2]; pr[0] = c; pr[1] = c2;
  uint32_t cp = 0;
  int l = spec_utf16_next(pr, 0, 2, &cp);
  _Bool pair = (l == 2);       /* c,c2 is a well-formed surrogate pair encoding cp >= 0x10000 */
#define CHECK2(V, TAB, fn, single, paired, txt) \
  __CPROVER_assert(XMLChar##V##_##fn(c, c2) == ((c2 == 0) ? (single) : (pair && (paired))), "C02: XMLChar" #V "::" #fn " " txt)
#define CHECKS(V, TAB) \
  CHECK2(V, TAB, isFirstNameChar, CLS(TAB, c, gFirstNameCharMask), spec_xml_NameStartChar(cp), "= NameStartChar (single unit: table bit; pair: [4] on the code point)"); \
  CHECK2(V, TAB, isFirstNCNameChar, CLS(TAB, c, gFirstNameCharMask) && c != ':', spec_xml_NCNameStartChar(cp), "= NameStartChar minus ':'"); \
  CHECK2(V, TAB, isNameChar, CLS(TAB, c, gNameCharMask), spec_xml_NameChar(cp), "= NameChar"); \
  CHECK2(V, TAB, isNCNameChar, CLS(TAB, c, gNCNameCharMask), spec_xml_NCNameChar(cp), "= NCNameChar"); \
  CHECK2(V, TAB, isPlainContentChar, CLS(TAB, c, gPlainContentCharMask), 1, "= plain content (every supplementary Char is plain)"); \
  CHECK2(V, TAB, isSpecialStartTagChar, CLS(TAB, c, gSpecialStartTagCharMask), 0, "= special start tag class (no supplementary member)"); \
  CHECK2(V, TAB, isWhitespace, CLS(TAB, c, gWhitespaceCharMask), spec_xml_S(cp), "= S"); \
  CHECK2(V, TAB, isControlChar, CLS(TAB, c, gControlCharMask), 0, "= control class (no supplementary member)")
  CHECKS(1_0, T10.a);
  CHECKS(1_1, T11.a);
  CHECK2(1_0, T10.a, isXMLChar, CLS(T10.a, c, gXMLCharMask), spec_xml10_Char(cp), "= Char");
  CHECK2(1_1, T11.a, isXMLChar, CLS(T11.a, c, gXMLCharMask), spec_xml11_Char(cp) && !spec_xml11_RestrictedChar(cp), "= Char minus RestrictedChar");
  /* Letter: both classes use the 1.0 table (XMLChar.hpp: "XML 1.1 does not define a letter, so we use the 1.0 definition") */
  CHECK2(1_0, T10.a, isXMLLetter, CLS(T10.a, c, gFirstNameCharMask) && c != ':' && c != '_', 0, "= NameStartChar minus ':' and '_' (no supplementary Letter)");
  CHECK2(1_1, T10.a, isXMLLetter, CLS(T10.a, c, gFirstNameCharMask) && c != ':' && c != '_', 0, "= the 1.0 Letter");
  __CPROVER_assert(XMLChar1_0_isWhitespace1(c) == CLS(T10.a, c, gWhitespaceCharMask), "C02: XMLChar1_0::isWhitespace(c) = S");
}
