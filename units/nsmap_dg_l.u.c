//@ unit nsmap_dg_l
//@ props C06 C02
//@ kind L
//@ entry h_nsmap
//@ note token-level subs only (K_NULL is 0 so that the code's own null tests keep their meaning)
//@ note DGXMLScanner::updateNSMap over all combinations of (prefix present?, declared prefix kind, namespace-name kind, XML version); strings are kinds (contracts/nsmap_common.inc), fElemStack.addPrefix / fURIStringPool->addOrFind / emitError are recording sinks
#define VERIF_DEFINE_GHOSTS
#include "verif_prelude.h"
//@ include nsmap_common.inc

/*@extract src/xercesc/internal/DGXMLScanner.cpp DGXMLScanner::updateNSMap
sig void DGXMLScanner_updateNSMap(int attrPrefix, int attrLocalName, int attrValue)
fragment ^\{ ||| \}\s*$
sub \*attrPrefix\b => (attrPrefix != K_EMPTY)
sub XMLString::equals\((\w+), XMLUni::fgXMLNSString\) => ST_equalsK(\1, K_XMLNS)
sub XMLString::equals\((\w+), XMLUni::fgXMLString\) => ST_equalsK(\1, K_XML)
sub XMLString::equals\((\w+), XMLUni::fgXMLURIName\) => ST_equalsK(\1, K_XMLURI)
sub XMLString::equals\((\w+), XMLUni::fgXMLNSURIName\) => ST_equalsK(\1, K_XMLNSURI)
sub \*attrValue\b => (attrValue != K_EMPTY)
sub emitError\((XMLErrs::\w+)(?:, \w+)?\) => SC_emitError(\1)
sub fElemStack\.addPrefix\s*\(\s*attrLocalName\s*, fURIStringPool->addOrFind\(attrValue\)\s*\) => ES_addPrefix(attrLocalName, SP_addOrFind(attrValue))
@*/

void h_nsmap(void)
{
  int prefix, local, value;
  VERIF_INPUT(prefix); VERIF_INPUT(local); VERIF_INPUT(value); VERIF_INPUT(fXMLVersion);
  VERIF_ASSUME(prefix == K_NULL || prefix == K_EMPTY || prefix == K_XMLNS);   /* callers: prefix is "xmlns" (xmlns:p=..) or absent (xmlns=..) */
  VERIF_ASSUME(local == K_XMLNS || local == K_XML || local == K_OTHER || local == K_EMPTY);
  VERIF_ASSUME(value == K_NULL || value == K_EMPTY || value == K_XMLURI || value == K_XMLNSURI || value == K_OTHER);
  VERIF_ASSUME(fXMLVersion == XMLReader_XMLV1_0 || fXMLVersion == XMLReader_XMLV1_1);
  int declaresPrefix = (prefix == K_XMLNS);
  /* xmlns="..." arrives as (no prefix, local name "xmlns"): the declared prefix is the empty one */
  VERIF_ASSUME(declaresPrefix || local == K_XMLNS);
  NERR = 0; ADDED = 0; verif_thrown = 0;
  DGXMLScanner_updateNSMap(prefix, local, value);
  VERIF_CANARY("after call");
  int e1, e2, e3, e4, e5;
  spec_nsdecl(declaresPrefix, local, value, fXMLVersion, &e1, &e2, &e3, &e4, &e5);
  __CPROVER_assert(has_err(XMLErrs_NoUseOfxmlnsAsPrefix) == e1, "C06: declaring the prefix xmlns is reported, nothing else is");
  __CPROVER_assert(has_err(XMLErrs_PrefixXMLNotMatchXMLURI) == e2, "C06: binding xml to another namespace name is reported");
  __CPROVER_assert(has_err(XMLErrs_NoEmptyStrNamespace) == e3, "C06: un-declaring a prefix is an error in XML 1.0 only");
  __CPROVER_assert(has_err(XMLErrs_NoUseOfxmlnsURI) == e4, "C06: binding anything to the xmlns namespace name is reported");
  __CPROVER_assert(has_err(XMLErrs_XMLURINotMatchXMLPrefix) == e5, "C06: binding another prefix (or the default) to the xml namespace name is reported");
  __CPROVER_assert(ADDED == 1 && ADD_URI == (int)SP_addOrFind(value), "C06: the binding is recorded in the element stack with the namespace name's id");
  for (int k = 0; k < 8; k++) if (k < NERR) __CPROVER_assert(ERRS[k] >= XMLErrs_F_LowBounds && ERRS[k] <= XMLErrs_F_HighBounds, "C02: namespace constraint violations are fatal errors");
}
