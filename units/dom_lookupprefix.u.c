//@ unit dom_lookupprefix
//@ props C06 C01
//@ kind W
//@ def quick NEL=3 NATTR=2
//@ def thorough NEL=3 NATTR=2
//@ cbmc all --unwind 5 --unwindset DOMNodeImpl_getElementAncestor.0:4,DOMNodeImpl_lookupNamespaceURI.0:3,DOMNodeImpl_lookupPrefix2.0:3,ND_getAttributeNodeNS.0:3,spec_lookupNamespaceURI.0:3,spec_lookupNamespaceURI.1:4,spec_lookupPrefix.0:3,spec_lookupPrefix.1:4,spec_isDefaultNamespace.0:3,spec_isDefaultNamespace.1:4,run_x.0:9,run_x.1:12 --unwinding-assertions
//@ entry h_lookup
//@ note algorithm under test: DOMNodeImpl::lookupPrefix (both overloads) (the other two are extracted as well: they call each other)
//@ note W: complete for harness trees document -> chain of <= NEL elements with <= NATTR attributes each, every namespace / prefix / local name / value over 7 string ids, started at the document, any element, any attribute, or a further node of any other type hung under the document, an element, an entity reference below the root element (an ancestor that is no element is skipped), an attribute or nothing; every call is made with concrete links and node types (only names, namespaces, values, depth and attribute counts are symbolic) so that the node-type switches are decided during symbolic execution; recursion (ancestor->lookupXxx) and the attribute loops fully unwound
//@ note stubs (contracts/dom_tree.inc): getParentNode, getNodeType, getNamespaceURI, getPrefix, getLocalName, getNodeName, getNodeValue, hasAttributes, getAttributes/getLength/item, getDocumentElement, getAttributeNodeNS are accessors of the harness tree; strings are ids (equal iff same id; null and "" equal for XMLString::equals); getContainingNode() is the node itself, fOwnerNode its owner field; the virtual lookupXxx of every node class forwards to DOMNodeImpl (checked by reading dom/impl/*.cpp), so virtual calls become calls of the extracted functions
//@ note assumptions on the tree (what DOM Level 2 createElementNS / setAttributeNS guarantee): namespace ids are null or non-empty; prefixes and local names are never ""; an attribute in the xmlns namespace is either `xmlns` (no prefix, local name xmlns) or `xmlns:p` (prefix xmlns, local name p not xmlns); attributes of one element have distinct (namespace, local name); xmlns:p="" (prefix un-declaration, illegal in Namespaces 1.0) does not occur
//@ note lookupPrefix only: the starts at an attribute or at the further node check the DISPATCH (which element the question is handed to, argument and result passed through unchanged) with the onward call recorded instead of executed; the B.2 answer itself is proved for every start at the document and at an element with the real recursion (see contracts/dom_lookup_body.inc)
//@ note spec: DOM Level 3 Core, Appendix B.2 (lookupNamespacePrefix), B.3 (isDefaultNamespace), B.4 (lookupNamespaceURI) written as loops over the chain of ancestor elements
#define VERIF_DEFINE_GHOSTS
#include "verif_prelude.h"
//@ enum src/xercesc/dom/DOMNode.hpp NodeType DOMNode_ scope=DOMNode
//@ include dom_tree.inc
#define WHICH 1
//@ include dom_lookup_body.inc

