//@ unit dt_helpers
//@ props C09
//@ kind L
//@ entry h_dt_helpers
//@ note L: loop-free, complete over every int year and every month in 0..13 (1..12 plus the out-of-range values 0 = "month before January" that normalize()/addDuration()/getDateCanonicalRepresentation() pass as fValue[Month]-1, and 13 for symmetry); fQuotient/mod/modulo over every int dividend a with a-low not overflowing and the divisors the call sites use (12, 24, 60); symbolic divisors 1..4096 with |a| <= 2^20 (stated bound: 32-bit division against a symbolic divisor is out of SAT reach over the full range)
//@ note div() is modelled per ISO C99 7.20.6.2 (spec/gregorian.h); no floating point is involved (the C++ port uses div(), not floor())
//@ note the code's fQuotient truncates toward zero where Appendix E asks for floor; every call site compensates with `if (r <= 0 / < 0) { r += b; carry--; }`. The unit proves (a) exact Euclidean identity and truncation semantics, (b) equality with Appendix E for non-negative dividends, (c) that the compensated pair equals the Appendix E (floor) pair for every dividend. That the call sites apply the compensation is checked in dt_normalize.
#define VERIF_DEFINE_GHOSTS
#define SPEC_NEED_DIV_MODEL
#include "verif_prelude.h"
#include "gregorian.h"

/*@extract src/xercesc/util/XMLDateTime.cpp fQuotient
as fQuotient2
pick 1
static
@*/
/*@extract src/xercesc/util/XMLDateTime.cpp fQuotient
as fQuotient3
pick 2
static
call fQuotient => fQuotient2
@*/
/*@extract src/xercesc/util/XMLDateTime.cpp mod
static
@*/
/*@extract src/xercesc/util/XMLDateTime.cpp modulo
static
call fQuotient => fQuotient2
@*/
/*@extract src/xercesc/util/XMLDateTime.cpp isLeapYear
static
@*/
/*@extract src/xercesc/util/XMLDateTime.cpp maxDayInMonthFor
static
@*/

void h_dt_helpers(void)
{
  int year, month, a, b, t, sel;
  VERIF_INPUT(year); VERIF_INPUT(month); VERIF_INPUT(a); VERIF_INPUT(b); VERIF_INPUT(t); VERIF_INPUT(sel);
  verif_thrown = 0;

  /* ---- Gregorian rules: every int year ---- */
  __CPROVER_assert((isLeapYear(year) != 0) == (spec_is_leap(year) != 0), "C09: isLeapYear = Gregorian leap-year rule (Appendix E) for every int year");
  VERIF_ASSUME(month >= 0 && month <= 13);
  __CPROVER_assert(maxDayInMonthFor(year, month) == spec_max_day_in_month(year, month),
                   "C09: maxDayInMonthFor = Appendix E maximumDayInMonthFor for months 0..13, every int year");

  /* ---- fQuotient(a,b) / mod: the divisors the call sites use, every dividend ---- */
  VERIF_ASSUME(sel >= 0 && sel <= 3);
  if (sel == 0) b = 12; else if (sel == 1) b = 24; else if (sel == 2) b = 60;
  else { VERIF_ASSUME(b >= 1 && b <= 4096 && a >= -(1 << 20) && a <= (1 << 20)); }
  {
    int q = fQuotient2(a, b);
    int r = mod(a, b, q);
    __CPROVER_assert((spec_int)q * b + r == a, "C09: fQuotient/mod: a == q*b + r");
    __CPROVER_assert(-b < r && r < b && (r == 0 || (r < 0) == (a < 0)), "C09: fQuotient/mod: |r| < b, remainder has the sign of the dividend (C99 div)");
    if (a >= 0) {
      __CPROVER_assert(q == spec_fquot(a, b) && r == spec_modulo(a, b), "C09: fQuotient/mod = Appendix E fQuotient/modulo for a >= 0");
    }
    /* the compensation idiom of the call sites, as arithmetic: (q,r) -> (q-1, r+b) when r < 0 */
    __CPROVER_assert(((r < 0) ? q - 1 : q) == spec_fquot(a, b) && ((r < 0) ? r + b : r) == spec_modulo(a, b),
                     "C09: compensated (q,r) = Appendix E (floor) pair for every dividend");
  }

  /* ---- the 3-argument forms with (low, high) = (1, 13) as every call site has them ---- */
  VERIF_ASSUME(t > -2147483647 - 1);   /* t - low must not overflow: see note in the report (duration months are not bounded by the parser) */
  {
    int m = modulo(t, 1, 13);
    int c = fQuotient3(t, 1, 13);
    __CPROVER_assert((spec_int)c * 12 + (m - 1) == (spec_int)t - 1, "C09: modulo/fQuotient(t,1,13): t-1 == c*12 + (m-1)");
    __CPROVER_assert(m > -11 && m <= 12, "C09: modulo(t,1,13) in -10..12");
    if (t >= 1) {
      __CPROVER_assert(m == spec_modulo3(t, 1, 13) && c == spec_fquot3(t, 1, 13) && m >= 1, "C09: modulo/fQuotient(t,1,13) = Appendix E for t >= 1");
    }
    __CPROVER_assert(((m <= 0) ? m + 12 : m) == spec_modulo3(t, 1, 13) && ((m <= 0) ? c - 1 : c) == spec_fquot3(t, 1, 13),
                     "C09: compensated month/carry = Appendix E modulo(t,1,13)/fQuotient(t,1,13) for every t");
  }
  VERIF_CANARY("after call");
}
