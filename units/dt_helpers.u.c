//@ unit dt_helpers
//@ props C09
//@ kind L
//@ def quick YB=1048576 TB=1048576
//@ def thorough YB=2147483647 TB=2147483646
//@ timeout thorough=3000
//@ entry h_dt_helpers
//@ note L: loop-free. Quick tier: every year with |year| <= 2^20 and every t with |t| <= 2^20 (stated bound: the SAT back end needs minutes for 32-bit division equivalences); thorough tier: every int year, every int t except INT_MIN (t - low would overflow). Months 0..13 = 1..12 plus the out-of-range value 0 ("month before January") that normalize() / addDuration() / getDateCanonicalRepresentation() pass as fValue[Month]-1 with Month in 1..12, and 13 for symmetry; no other month value reaches maxDayInMonthFor (dt_normalize proves Month in 1..12 at the calls)
//@ note div() is modelled per ISO C99 7.20.6.2 (spec/gregorian.h); no floating point is involved (the C++ port uses div(), not floor())
//@ note the code's fQuotient truncates toward zero where Appendix E asks for floor; every call site compensates with `if (m <= 0) { m += 12; carry--; }`. Proved here: exact Euclidean identity, equality with Appendix E for t >= 1, and that the compensated pair equals the Appendix E (floor) pair for every t. That the call sites apply the compensation is checked in dt_normalize.
#define VERIF_DEFINE_GHOSTS
#define SPEC_NEED_DIV_MODEL
#include "verif_prelude.h"
#include "gregorian.h"

/*@extract src/xercesc/util/XMLDateTime.cpp fQuotient
as fQuotient2
pick 1
static
@*/
/*@extract src/xercesc/util/XMLDateTime.cpp mod
static
@*/
/*@extract src/xercesc/util/XMLDateTime.cpp fQuotient
as fQuotient3
pick 2
static
call fQuotient => fQuotient2
@*/
/*@extract src/xercesc/util/XMLDateTime.cpp modulo
static
call fQuotient => fQuotient2
@*/
/*@extract src/xercesc/util/XMLDateTime.cpp isLeapYear
static
@*/
/*@extract src/xercesc/util/XMLDateTime.cpp maxDayInMonthFor
static
@*/

void h_dt_helpers(void)
{
  int year, year2, month, t;
  VERIF_INPUT(year); VERIF_INPUT(year2); VERIF_INPUT(month); VERIF_INPUT(t);
  verif_thrown = 0;

  /* ---- Gregorian rules ---- */
  VERIF_ASSUME(year >= -YB && year <= YB);
  __CPROVER_assert((isLeapYear(year) != 0) == (spec_is_leap(year) != 0), "C09: isLeapYear = Gregorian leap-year rule (Appendix E)");
  VERIF_ASSUME(year2 >= -YB && year2 <= YB);
  VERIF_ASSUME(month >= 0 && month <= 13);
  __CPROVER_assert(maxDayInMonthFor(year2, month) == spec_max_day_in_month(year2, month),
                   "C09: maxDayInMonthFor = Appendix E maximumDayInMonthFor for months 0..13");

  /* ---- the 3-argument forms with (low, high) = (1, 13) as every call site has them ---- */
  VERIF_ASSUME(t >= -TB && t <= TB);
  {
    int m = modulo(t, 1, 13);
    int c = fQuotient3(t, 1, 13);
    __CPROVER_assert((spec_int)c * 12 + (m - 1) == (spec_int)t - 1, "C09: modulo/fQuotient(t,1,13): t-1 == c*12 + (m-1)");
    __CPROVER_assert(m > -11 && m <= 12, "C09: modulo(t,1,13) in -10..12");
    if (t >= 1) {
      __CPROVER_assert(m == spec_modulo3(t, 1, 13) && c == spec_fquot3(t, 1, 13) && m >= 1, "C09: modulo/fQuotient(t,1,13) = Appendix E for t >= 1");
    }
    __CPROVER_assert(((m <= 0) ? m + 12 : m) == spec_modulo3(t, 1, 13) && ((m <= 0) ? c - 1 : c) == spec_fquot3(t, 1, 13),
                     "C09: compensated month/carry = Appendix E modulo(t,1,13)/fQuotient(t,1,13) for every t");
  }
  VERIF_CANARY("after call");
}
