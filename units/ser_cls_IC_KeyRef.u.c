//@ unit ser_cls_IC_KeyRef
//@ props C16
//@ kind L
//@ entry h_ser_cls_IC_KeyRef
//@ note L: loop-free; the real body of IC_KeyRef::serialize runs twice on one object: store mode onto the tape, then -- after the whole object has been given arbitrary values again -- load mode from the tape; every member value is symbolic (full range of its real type)
//@ note tape engine (contracts/ser_tape.inc): operator<< / operator>> / writeSize / readSize / writeString / readString and the sub-object serialisers (XTemplateSerializer::storeObject/loadObject, DatatypeValidator::storeDV/loadDV, Base::serialize ...) are trusted stubs that record / check (type tag, value); the tag of a streamed operand comes from its REAL type (member types from the real class declaration, casts from the code) via _Generic; strings, containers and pointers to serialisable objects are opaque ids (the pointer value stands for the object; loading yields the id that was stored); the byte-level engine is the subject of units ser_primitives, ser_fillflush, ser_rawbytes
//@ note compared after load (store then load restores the value): fKey; NOT compared: nothing; base class IdentityConstraint: unit ser_cls_IdentityConstraint
#define VERIF_DEFINE_GHOSTS
#include "verif_prelude.h"
//@ include ser_tape.inc
#define IdentityConstraint_serialize(e) ENG_BASE(IdentityConstraint)
//@ struct src/xercesc/validators/schema/identity/IC_KeyRef.hpp IC_KeyRef only=auto structs=IdentityConstraint

/*@extract src/xercesc/validators/schema/identity/IC_KeyRef.cpp IC_KeyRef::serialize
streamops serEng
method serEng.isStoring => ENG_isStoring
method serEng.isLoading => ENG_isLoading
method serEng.writeSize => ENG_writeSize
method serEng.readSize => ENG_readSize
method serEng.writeString => ENG_writeString
method serEng.readString => ENG_readString
method serEng.writeUInt64 => ENG_writeUInt64
method serEng.readUInt64 => ENG_readUInt64
method serEng.writeInt64 => ENG_writeInt64
method serEng.readInt64 => ENG_readInt64
method serEng.getMemoryManager => ENG_getMemoryManager
@*/

#define FIELDS(X) X(fKey)

void h_ser_cls_IC_KeyRef(void)
{
  VERIF_INPUT(SELF); TAPE_INIT();
  FIELDS(SER_FIELD_SAVE)
  verif_thrown = 0;
  TAPE_BEGIN_STORE();
  IC_KeyRef_serialize(&ENGINE);
  VERIF_INPUT(SELF);                      /* the object that is loaded into: arbitrary contents */
  TAPE_BEGIN_LOAD();
  IC_KeyRef_serialize(&ENGINE);
  VERIF_CANARY("after store and load");
  __CPROVER_assert(!verif_thrown, "C16: serialize does not throw by itself");
  TAPE_END_CHECK();
  FIELDS(SER_FIELD_CHECK)
}
