//@ unit rdr_skippedSpace
//@ props C03 C04 C01
//@ kind L
//@ def all kCharBufSize=4
//@ rebind src/xercesc/internal/XMLReader.hpp kCharBufSize
//@ enforce XMLReader_skippedSpace
//@ replace XMLReader_refreshCharBuffer
//@ replace XMLReader_isWhitespace
//@ cbmc all --arrays-uf-always
//@ entry h_skippedSpace
//@ note isWhitespace is replaced by a contract over an arbitrary (nondet) predicate table WS; the tables behind it are checked against the XML productions in the chartab_* units. NB fgCharCharsTable1_1 flags U+0085 and U+2028 as white space (see findings/xml11_nel_is_whitespace), so WS[0x2028] = 1 is a real case for version 1.1 documents
//@ note spec/eol.h is written from XML 1.0 5th ed. 2.11 and XML 1.1 2nd ed. 2.11; its parameter r11 is instantiated with fNEL
//@ note refreshCharBuffer is replaced by the contract proved in unit rdr_refreshCharBuffer; the calls go through the ghost shim of contracts/XMLReader_refill_obs.inc
//@ note handleEOL is NOT replaced by a contract: its real body is extracted and verified in place
//@ note by reading, not an obligation: skippedSpace declares `const XMLCh curCh` and lets handleEOL write it through `(XMLCh&)curCh` -- modifying a const object is undefined behaviour in C++ ([dcl.type.cv]); the extracted C text does the same through a pointer cast
#define VERIF_DEFINE_GHOSTS
#include "verif_prelude.h"
#include "eol.h"
//@ enum src/xercesc/internal/XMLReader.hpp Sources - scope=XMLReader
//@ enum src/xercesc/internal/XMLReader.hpp XMLVersion - scope=XMLReader
//@ struct src/xercesc/internal/XMLReader.hpp XMLReader only=auto enums=Sources,XMLVersion
//@ include XMLReader_ri.inc
//@ include XMLReader_refill_obs.inc
#define EXT (fSource == Source_External)
_Bool WS[65536];
/*@extract src/xercesc/internal/XMLReader.hpp XMLReader::isWhitespace
declonly
contract
__CPROVER_requires(1)
__CPROVER_assigns()
__CPROVER_ensures(__CPROVER_return_value == WS[toCheck])
@*/

/* the sub rule turns `a || f()` into the equivalent `a ? 1 : f()`: goto-instrument 6.11 aborts ("no definite size for lvalue target
   tmp_if_expr") on the bool temporary of a side-effecting || inside a function that is inlined into the enforced one */
/*@extract src/xercesc/internal/XMLReader.cpp XMLReader::handleEOL
sub \(fCharIndex < fCharsAvail\) \|\| refreshCharBuffer\(\) => (fCharIndex < fCharsAvail) ? 1 : refreshCharBuffer()
call refreshCharBuffer => XMLReader_refreshCharBuffer_obs
throws XMLReader_refreshCharBuffer_obs
@*/

/*@extract src/xercesc/internal/XMLReader.cpp XMLReader::skippedSpace
ret false
sub \(XMLCh&\)curCh => *(XMLCh*)&curCh
call refreshCharBuffer => XMLReader_refreshCharBuffer_obs
call isWhitespace => XMLReader_isWhitespace
call handleEOL => XMLReader_handleEOL
throws XMLReader_refreshCharBuffer_obs XMLReader_handleEOL
contract
//@ include XMLReader_take1.contract.inc
/* skippedSpace: U[0] is taken iff there is one and it is white space; a refill for it is attempted iff there is no spare character */
__CPROVER_ensures(!verif_thrown ==> __CPROVER_return_value == (GOT0 && WS[U0]))
__CPROVER_ensures(HAD0 ? RF_N <= 1 : RF_N >= 1)
/* refused or nothing there: nothing is consumed -- the unread sequence still starts at U[0], wherever it now sits */
__CPROVER_ensures((!verif_thrown && !__CPROVER_return_value && HAD0) ==> (RF_N == 0 && fCharIndex == O_IDX && fCharsAvail == O_AV))
__CPROVER_ensures((!verif_thrown && !__CPROVER_return_value && !HAD0 && GOT0) ==> (RF_N == 1 && fCharIndex == 0 && fCharsAvail == RF1_AVAIL && fCharBuf[0] == RF1_C0))
__CPROVER_ensures((!verif_thrown && !__CPROVER_return_value && !GOT0) ==> fCharIndex == fCharsAvail)
@*/

void h_skippedSpace(void)
{
  VERIF_INPUT(SELF);
  verif_thrown = 0; RF_N = 0;
  XMLReader_skippedSpace();
  VERIF_CANARY("after call");
}
