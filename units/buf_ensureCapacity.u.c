//@ unit buf_ensureCapacity
//@ props C01
//@ kind P
//@ def quick MAXCAP=6
//@ def thorough MAXCAP=24
//@ enforce XMLBuffer_ensureCapacity
//@ replace XMLBufferFullHandler_bufferFull
//@ entry h_buf_ensureCapacity
//@ note loop-free function, proved for every fIndex / extraNeeded with fIndex + extraNeeded <= 2^40 (no size computation wraps below that) and every capacity; heap: fBuffer is a dynamic object of (fCapacity+1) XMLCh or more
//@ note MemoryManager::allocate never fails in the model (OutOfMemoryException not modelled); XMLBufferFullHandler::bufferFull is contract-only (may lower fIndex arbitrarily, any return value)
#define VERIF_DEFINE_GHOSTS
#include "verif_prelude.h"
#include <stdlib.h>
//@ include XMLBuffer_real.inc

/*@extract src/xercesc/framework/XMLBuffer.cpp XMLBuffer::ensureCapacity
sub fMemoryManager->allocate => verif_alloc
sub fMemoryManager->deallocate => verif_free
sub fFullHandler->bufferFull\(\*this\) => XMLBufferFullHandler_bufferFull()
contract
CONTRACT_ensureCapacity
@*/

void h_buf_ensureCapacity(void)
{
  XMLSize_t extra, alloc_extra;
  VERIF_INPUT(SELF); VERIF_INPUT(extra); VERIF_INPUT(GA); VERIF_INPUT(alloc_extra);
  VERIF_ASSUME(fCapacity <= MAXCAP && alloc_extra <= 2 && extra <= MAXCAP && fFullSize <= 3 * MAXCAP);
  /* setFullHandler may lower fCapacity below the allocated size: the object has (fCapacity + 1 + alloc_extra) characters */
  fBuffer = malloc((fCapacity + 1 + alloc_extra) * sizeof(XMLCh));
  VERIF_ASSUME(fBuffer != 0);
  verif_thrown = 0;
  XMLBuffer_ensureCapacity(extra);
  VERIF_CANARY("after call");
}
