//@ unit buf_ensureCapacity
//@ props C01
//@ kind P
//@ enforce XMLBuffer_ensureCapacity
//@ replace XMLBufferFullHandler_bufferFull
//@ cbmc all --unsigned-overflow-check
//@ entry h_buf_ensureCapacity
//@ note loop-free function, proved for every capacity and every fIndex + extraNeeded <= 2^40: no size computation wraps, every access in bounds, RI re-established, frame respected; content clauses are in unit buf_content (W, bounded sizes)
//@ note MemoryManager::allocate never fails in the model (OutOfMemoryException not modelled); XMLBufferFullHandler::bufferFull is contract-only (may lower fIndex arbitrarily, any return value)
#define VERIF_DEFINE_GHOSTS
#include "verif_prelude.h"
#include <stdlib.h>
//@ include XMLBuffer_real.inc

/*@extract src/xercesc/framework/XMLBuffer.cpp XMLBuffer::ensureCapacity
sub fMemoryManager->allocate => verif_alloc
sub fMemoryManager->deallocate => verif_free
sub fFullHandler->bufferFull\(\*this\) => XMLBufferFullHandler_bufferFull()
contract
CONTRACT_ensureCapacity
@*/

void h_buf_ensureCapacity(void)
{
  XMLSize_t extra, alloc_extra;
  VERIF_INPUT(SELF); VERIF_INPUT(extra); VERIF_INPUT(GA); VERIF_INPUT(alloc_extra);
  VERIF_ASSUME(BUF_SIZE_BOUND && alloc_extra <= 16);
  /* setFullHandler may lower fCapacity below the allocated size: the object has (fCapacity + 1 + alloc_extra) characters */
  fBuffer = malloc((fCapacity + 1 + alloc_extra) * sizeof(XMLCh));
  VERIF_INPUT(NEXTSIZE); NEXTBUF = malloc(NEXTSIZE); NEXTUSED = 0;
  VERIF_ASSUME(fBuffer != 0 && NEXTBUF != 0);
  verif_thrown = 0;
  XMLBuffer_ensureCapacity(extra);
  VERIF_CANARY("after call");
}
