//@ unit ser_tmpl_RefHash3KeysIdPool_SchemaElementDecl
//@ props C16
//@ kind W
//@ def quick NC=3
//@ def thorough NC=4
//@ def all TAPE_MAX=16
//@ cbmc quick --unwind 9 --unwinding-assertions
//@ cbmc thorough --unwind 11 --unwinding-assertions
//@ entry h_ser_tmpl_RefHash3KeysIdPool_SchemaElementDecl
//@ note W: complete for pools of <= NC element declarations (all loops unwound); the real bodies of XTemplateSerializer::storeObject(RefHash3KeysIdPool<SchemaElementDecl>*, serEng) and loadObject(RefHash3KeysIdPool<SchemaElementDecl>**, int, bool, int, serEng) (SchemaGrammar::fElemDeclPool, fGroupElemDeclPool) run over the tape engine: store mode on a symbolic pool (null / written before / new), then load mode into the owner's empty pool or into none
//@ note tape engine (contracts/ser_tape.inc): operator<< / operator>> / writeSize / readSize / writeString / readString are trusted stubs that record / check (type tag, value); the tag of a streamed operand comes from its REAL type via _Generic; strings and pointers to serialisable objects are opaque ids (the pointer value stands for the object; loading yields the id that was stored); needToStoreObject / needToLoadObject / registerObject: header record null / reference / new object (contracts/ser_container.inc)
//@ note container model (contracts/ser_container.inc, trusted stubs): a pool is <= NC entries (key1 string id, key2 uri, key3 scope AS FILED, element); the key enumerator (hasMoreKeys / nextElementKey) yields them in index order -- the entries are symbolic, so this is an arbitrary order; getByKey finds the entry filed under equal keys; put(k1, k2, k3, e) replaces an entry filed under equal keys, else appends and gives the next id; the element attributes getBaseName() / getURI() / getEnclosingScope() are symbolic fields of the element, separate from the keys as filed
//@ note ASSUMED class invariant of the stored pool (SchemaGrammar::putElemDecl / putGroupElemDecl file an element under ITS OWN base name and URI: `put((void*)elemDecl->getBaseName(), elemDecl->getURI(), scope, elemDecl)`): key1 == getBaseName(), key2 == getURI(); NOT assumed: key3 == getEnclosingScope() (putGroupElemDecl files under the group's scope); no two entries under equal keys; elements non-null and distinct
//@ note the ids (position in the pool) are the subject of the strict variant ser_tmpl_RefHash3KeysIdPool_SchemaElementDecl_id
#define VERIF_DEFINE_GHOSTS
#include "verif_prelude.h"
//@ include ser_tape.inc
//@ include ser_container.inc
#define SC_HARNESS h_ser_tmpl_RefHash3KeysIdPool_SchemaElementDecl
//@ include ser_tmpl_RefHash3_body.inc
