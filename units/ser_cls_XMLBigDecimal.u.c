//@ unit ser_cls_XMLBigDecimal
//@ props C16
//@ kind W
//@ cbmc all --unwind 9 --unwinding-assertions
//@ entry h_ser_cls_XMLBigDecimal
//@ note the real body of XMLBigDecimal::serialize runs twice on one object: store mode onto the tape, then -- after the whole object has been given arbitrary values again -- load mode from the tape; every member value is symbolic (full range of its real type)
//@ note tape engine (contracts/ser_tape.inc): operator<< / operator>> / writeSize / readSize / writeString / readString and the sub-object serialisers (XTemplateSerializer::storeObject/loadObject, DatatypeValidator::storeDV/loadDV, Base::serialize ...) are trusted stubs that record / check (type tag, value); the tag of a streamed operand comes from its REAL type (member types from the real class declaration, casts from the code) via _Generic; strings, containers and pointers to serialisable objects are opaque ids (the pointer value stands for the object; loading yields the id that was stored); the byte-level engine is the subject of units ser_primitives, ser_fillflush, ser_rawbytes
//@ note compared after load (store then load restores the value): fSign, fTotalDigits, fScale; NOT compared: fRawData, fIntVal (strings: the load branch copies both into ONE fresh buffer -- placement, lengths and terminators checked on the stub level), fRawDataLen (recomputed from the loaded raw string -- checked), fMemoryManager
//@ note W only because of the harness loop that paints BLOCK; the serialize body is loop-free; string lengths 0..2 (complete for the placement arithmetic: offsets are linear in the lengths)
#define VERIF_DEFINE_GHOSTS
#include "verif_prelude.h"
//@ include ser_tape.inc
#define XMLNumber_serialize(e) ENG_BASE(XMLNumber)
/* trusted stubs: strings are ids with harness-chosen lengths (LEN_RAW, LEN_INT <= 2); allocate hands out BLOCK (8 XMLCh) and records the
 * size asked for; memcpy records (offset in BLOCK, source id, byte count) instead of copying; ArrayJanitor owns the temporary string */
const XMLCh *ID_RAW, *ID_INT; XMLSize_t LEN_RAW, LEN_INT;
static XMLCh BLOCK[8]; XMLSize_t ALLOC_BYTES; int ALLOCS, FREES, NCOPY; const void *FREED_LAST;
struct { XMLSize_t ofs; const void *src; XMLSize_t n; } COPY[2];
static XMLSize_t XMLString_stringLen(const XMLCh *s) { return s == ID_RAW ? LEN_RAW : s == ID_INT ? LEN_INT : 0; }
static void MM_deallocate(MemoryManager *mm, void *p) { FREES++; FREED_LAST = p; }
static void* MM_allocate(MemoryManager *mm, XMLSize_t n) { ALLOCS++; ALLOC_BYTES = n; __CPROVER_assert(n <= sizeof BLOCK, "harness: BLOCK large enough"); return BLOCK; }
static void BD_memcpy(void *dst, const void *src, XMLSize_t n) { if (NCOPY < 2) { COPY[NCOPY].ofs = (XMLSize_t)((XMLCh*)dst - BLOCK); COPY[NCOPY].src = src; COPY[NCOPY].n = n; } NCOPY++; }
#define JANITOR_XMLCh(name, p, mm) const XMLCh *name = (p); (void)name
//@ struct src/xercesc/util/XMLBigDecimal.hpp XMLBigDecimal only=auto

/*@extract src/xercesc/util/XMLBigDecimal.cpp XMLBigDecimal::serialize
streamops serEng
method serEng.isStoring => ENG_isStoring
method serEng.isLoading => ENG_isLoading
method serEng.writeSize => ENG_writeSize
method serEng.readSize => ENG_readSize
method serEng.writeString => ENG_writeString
method serEng.readString => ENG_readString
method serEng.writeUInt64 => ENG_writeUInt64
method serEng.readUInt64 => ENG_readUInt64
method serEng.writeInt64 => ENG_writeInt64
method serEng.readInt64 => ENG_readInt64
method serEng.getMemoryManager => ENG_getMemoryManager
sub* ArrayJanitor<XMLCh>\s+(\w+)\( => JANITOR_XMLCh(\1, 
method fMemoryManager->deallocate => MM_deallocate
method fMemoryManager->allocate => MM_allocate
call memcpy => BD_memcpy
@*/

#define FIELDS(X) X(fSign) X(fTotalDigits) X(fScale)

void h_ser_cls_XMLBigDecimal(void)
{
  VERIF_INPUT(SELF); TAPE_INIT();
  VERIF_INPUT(LEN_RAW); VERIF_INPUT(LEN_INT); VERIF_ASSUME(LEN_RAW <= 2 && LEN_INT <= 2);
  VERIF_ASSUME(fRawData != 0 && fIntVal != 0 && fRawData != fIntVal);   /* a parsed decimal has both strings (XMLBigDecimal constructor) */
  ID_RAW = fRawData; ID_INT = fIntVal;
  FIELDS(SER_FIELD_SAVE)
  verif_thrown = 0;
  TAPE_BEGIN_STORE();
  XMLBigDecimal_serialize(&ENGINE);
  VERIF_INPUT(SELF);                      /* the object that is loaded into: arbitrary contents */
  void *own_raw = fRawData; ALLOCS = 0; FREES = 0; NCOPY = 0; for (int k = 0; k < 8; k++) BLOCK[k] = 0x55;
  TAPE_BEGIN_LOAD();
  XMLBigDecimal_serialize(&ENGINE);
  VERIF_CANARY("after store and load");
  __CPROVER_assert(!verif_thrown, "C16: serialize does not throw by itself");
  TAPE_END_CHECK();
  FIELDS(SER_FIELD_CHECK)
  __CPROVER_assert(fRawDataLen == LEN_RAW, "C16: the raw-data length, which is not serialised, is recomputed from the loaded string");
  __CPROVER_assert(FREES == (own_raw != 0) && (own_raw == 0 || FREED_LAST == own_raw) && ALLOCS == 1 && ALLOC_BYTES >= (LEN_RAW + LEN_INT + 2) * sizeof(XMLCh),
                   "C01/C16: load releases the buffer the loading object owned and allocates one that holds both strings and their terminators");
  __CPROVER_assert(fRawData == BLOCK && NCOPY == 2 && COPY[0].ofs == 0 && COPY[0].src == ID_RAW && COPY[0].n == LEN_RAW * sizeof(XMLCh) && BLOCK[LEN_RAW] == 0,
                   "C16: store then load restores the raw data string (copied to the start of the new buffer, terminated)");
  __CPROVER_assert(fIntVal == BLOCK + LEN_RAW + 1 && COPY[1].ofs == LEN_RAW + 1 && COPY[1].src == ID_INT && COPY[1].n == LEN_INT * sizeof(XMLCh) && BLOCK[LEN_RAW + 1 + LEN_INT] == 0,
                   "C16: store then load restores the integer-value string (copied behind the raw data, terminated)");
}
