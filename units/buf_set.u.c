//@ unit buf_set
//@ enforce XMLBuffer_set_n
//@ enforce XMLBuffer_set_z
//@ enforce XMLBuffer_getRawBuffer
//@ replace XMLBuffer_append_n
//@ replace XMLBuffer_append_z
//@ entry h_buf_set
//@ props C01
//@ kind P
//@ cbmc all --unsigned-overflow-check
//@ note proved for every capacity and every fIndex + count <= 2^40: no size computation wraps, every access in bounds, RI re-established on normal and exceptional exit, frame respected; heap: fBuffer is a dynamic object of (fCapacity+1) XMLCh or more; content clauses are in unit buf_content (W, bounded sizes)
//@ note MemoryManager::allocate never fails in the model (OutOfMemoryException not modelled); callees are replaced by the contracts proved in the other buf_* units; XMLBufferFullHandler::bufferFull (reached only through ensureCapacity) may lower fIndex arbitrarily
#define VERIF_DEFINE_GHOSTS
#include "verif_prelude.h"
#include <stdlib.h>
//@ include XMLBuffer_real.inc

/*@extract src/xercesc/framework/XMLBuffer.hpp XMLBuffer::append
inclass
params const XMLCh* const chars
pick 2
as XMLBuffer_append_z
declonly
contract
CONTRACT_append_z
@*/
/*@extract src/xercesc/framework/XMLBuffer.hpp XMLBuffer::append
inclass
params const XMLCh* const chars, const XMLSize_t count
as XMLBuffer_append_n
declonly
contract
CONTRACT_append_n
@*/
/*@extract src/xercesc/framework/XMLBuffer.hpp XMLBuffer::set
inclass
params const XMLCh* const chars, const XMLSize_t count
as XMLBuffer_set_n
call append => XMLBuffer_append_n
throws XMLBuffer_append_n
contract
CONTRACT_set_n
@*/
/*@extract src/xercesc/framework/XMLBuffer.hpp XMLBuffer::set
inclass
params const XMLCh* const chars
pick 2
as XMLBuffer_set_z
call append => XMLBuffer_append_z
throws XMLBuffer_append_z
contract
CONTRACT_set_z
@*/
/*@extract src/xercesc/framework/XMLBuffer.hpp XMLBuffer::getRawBuffer
inclass
pick 1
contract
CONTRACT_getRawBuffer
@*/

void h_buf_set(void)
{
  XMLSize_t alloc_extra, count; int which;
  VERIF_INPUT(SELF); VERIF_INPUT(GA); VERIF_INPUT(LEN); VERIF_INPUT(GS); VERIF_INPUT(alloc_extra);
  VERIF_ASSUME(BUF_SIZE_BOUND && alloc_extra <= 16);
  /* setFullHandler may lower fCapacity below the allocated size: the object has (fCapacity + 1 + alloc_extra) characters */
  fBuffer = malloc((fCapacity + 1 + alloc_extra) * sizeof(XMLCh));
  VERIF_INPUT(NEXTSIZE); NEXTBUF = malloc(NEXTSIZE); NEXTUSED = 0;
  VERIF_ASSUME(fBuffer != 0 && NEXTBUF != 0);
  verif_thrown = 0;
  VERIF_INPUT(count); VERIF_INPUT(which);
  VERIF_ASSUME(count <= VERIF_BUFLEN_MAX && LEN <= VERIF_BUFLEN_MAX && GS <= LEN);
  if (which == 0) {
    XMLCh *src = malloc((count ? count : LEN + 1) * sizeof(XMLCh));     /* exactly count characters; count == 0: NUL-terminated, LEN + 1 */
    VERIF_ASSUME(src != 0);
    if (count == 0) src[LEN] = 0;
    XMLBuffer_set_n(src, count);
  } else if (which == 1) {
    XMLCh *src = malloc((LEN + 1) * sizeof(XMLCh));
    VERIF_ASSUME(src != 0);
    src[LEN] = 0;
    XMLBuffer_set_z(src);
  } else if (which == 2) {
    XMLBuffer_set_z(0);
  } else {
    XMLBuffer_getRawBuffer();
  }
  VERIF_CANARY("after call");
}
