//@ unit ser_cls_XMLSchemaDescriptionImpl
//@ props C16
//@ kind L
//@ entry h_ser_cls_XMLSchemaDescriptionImpl
//@ note L: loop-free; the real body of XMLSchemaDescriptionImpl::serialize runs twice on one object: store mode onto the tape, then -- after the whole object has been given arbitrary values again -- load mode from the tape; every member value is symbolic (full range of its real type)
//@ note tape engine (contracts/ser_tape.inc): operator<< / operator>> / writeSize / readSize / writeString / readString and the sub-object serialisers (XTemplateSerializer::storeObject/loadObject, DatatypeValidator::storeDV/loadDV, Base::serialize ...) are trusted stubs that record / check (type tag, value); the tag of a streamed operand comes from its REAL type (member types from the real class declaration, casts from the code) via _Generic; strings, containers and pointers to serialisable objects are opaque ids (the pointer value stands for the object; loading yields the id that was stored); the byte-level engine is the subject of units ser_primitives, ser_fillflush, ser_rawbytes
//@ note compared after load (store then load restores the value): fContextType, fNamespace, fLocationHints, fTriggeringComponent, fEnclosingElementName, fAttributes; NOT compared: nothing; base class XMLSchemaDescription has no data
//@ note load mode: the constructor-made namespace string of the loading object is released before the stored one is read (deallocate = recording stub): checked
#define VERIF_DEFINE_GHOSTS
#include "verif_prelude.h"
//@ include ser_tape.inc
typedef int XMLSchemaDescription_ContextType;
typedef int ContextType;
typedef struct QName QName; typedef struct XMLAttDef XMLAttDef;
#define XMLSchemaDescription_serialize(e) ENG_BASE(XMLSchemaDescription)
/* memory model (trusted stub): deallocate records what was freed */
void *FREED[4]; int NFREED;
#define XMLGrammarDescription_getMemoryManager() ((MemoryManager*)0)
static void MM_deallocate(MemoryManager *mm, void *p) { if (NFREED < 4) FREED[NFREED] = p; NFREED++; }
//@ struct src/xercesc/validators/schema/XMLSchemaDescriptionImpl.hpp XMLSchemaDescriptionImpl only=auto enums=XMLSchemaDescription_ContextType,ContextType structs=QName,XMLAttDef

/*@extract src/xercesc/validators/schema/XMLSchemaDescriptionImpl.cpp XMLSchemaDescriptionImpl::serialize
streamops serEng
method serEng.isStoring => ENG_isStoring
method serEng.isLoading => ENG_isLoading
method serEng.writeSize => ENG_writeSize
method serEng.readSize => ENG_readSize
method serEng.writeString => ENG_writeString
method serEng.readString => ENG_readString
method serEng.writeUInt64 => ENG_writeUInt64
method serEng.readUInt64 => ENG_readUInt64
method serEng.writeInt64 => ENG_writeInt64
method serEng.readInt64 => ENG_readInt64
method serEng.getMemoryManager => ENG_getMemoryManager
sub* \(XMLCh\*&\)\s*(\w+) => (*(XMLCh**)&\1)
method XMLGrammarDescription_getMemoryManager()->deallocate => MM_deallocate
@*/

#define FIELDS(X) X(fContextType) X(fNamespace) X(fLocationHints) X(fTriggeringComponent) X(fEnclosingElementName) X(fAttributes)

void h_ser_cls_XMLSchemaDescriptionImpl(void)
{
  VERIF_INPUT(SELF); TAPE_INIT();
  FIELDS(SER_FIELD_SAVE)
  verif_thrown = 0;
  TAPE_BEGIN_STORE();
  XMLSchemaDescriptionImpl_serialize(&ENGINE);
  VERIF_INPUT(SELF);                      /* the object that is loaded into: arbitrary contents */
  VERIF_ASSUME(fNamespace == 0 || fNamespace != sv_fNamespace);   /* the namespace string the constructor of the loading object made is not the stored one */
  const void *own_ns = fNamespace; NFREED = 0;
  TAPE_BEGIN_LOAD();
  XMLSchemaDescriptionImpl_serialize(&ENGINE);
  VERIF_CANARY("after store and load");
  __CPROVER_assert(!verif_thrown, "C16: serialize does not throw by itself");
  TAPE_END_CHECK();
  FIELDS(SER_FIELD_CHECK)
  __CPROVER_assert(NFREED == (own_ns != 0) && (own_ns == 0 || FREED[0] == own_ns),
                   "C01/C16: load frees exactly the constructor-made namespace string of the loading object (not the one just loaded), once");
}
