//@ unit scannext_eoe_wf_w
//@ props C03
//@ kind W
//@ def all NEOE=3
//@ cbmc all --unwind 6 --unwinding-assertions
//@ entry h_scannext_eoe
//@ note fragment of WFXMLScanner::scanNext (progressive parse): the token-sensing step that has to absorb the EndOfEntityException of EVERY entity that ends at this point (nested entities ending together), verified as a function of its own through the R14 try/catch translation; complete for up to NEOE entities ending at once
//@ note stubs: senseNextToken throws EndOfEntityException K times (harness-chosen K <= NEOE) and then returns the token; fDocHandler->endEntityReference counts events; toCatch.getEntity() is not modelled (argument dropped)
#define VERIF_DEFINE_GHOSTS
#include "verif_prelude.h"
typedef int XMLTokens;
int K_LEFT, CALLS, EOE_EVENTS, THE_TOKEN; _Bool HAVE_HANDLER;
static XMLTokens SC_senseNextToken(XMLSize_t *orgReader)
{ CALLS++; *orgReader = 7; if (K_LEFT > 0) { K_LEFT--; verif_thrown = 1; verif_throw_type = VT_EndOfEntityException; verif_throw_code = 0; return 0; } return THE_TOKEN; }
static void DH_endEntityReference(void) { EOE_EVENTS++; }

/*@extract src/xercesc/internal/WFXMLScanner.cpp WFXMLScanner::scanNext
as IG_scanNext_sense
ret -1
fragment (?<=\{)\s*(?:while \(true\)\s*\{\s*try|try\s*\{\s*curToken) ||| (?=if \(curToken == Token_CharData\))
sig XMLTokens IG_scanNext_sense(void)
pre
static XMLTokens curToken; static XMLSize_t orgReader;   /* locals of scanNext declared before the fragment */
end
sub senseNextToken\(orgReader\) => SC_senseNextToken(&orgReader)
sub if \(fDocHandler\)\s*fDocHandler->endEntityReference\(toCatch\.getEntity\(\)\); => if (HAVE_HANDLER) DH_endEntityReference();
throws SC_senseNextToken
@*/

void h_scannext_eoe(void)
{
  int k; VERIF_INPUT(k); VERIF_INPUT(THE_TOKEN); VERIF_INPUT(HAVE_HANDLER);
  VERIF_ASSUME(k >= 0 && k <= NEOE && THE_TOKEN >= 0);
  K_LEFT = k; CALLS = 0; EOE_EVENTS = 0; verif_thrown = 0; curToken = -5;
  IG_scanNext_sense();
  VERIF_CANARY("after fragment");
  __CPROVER_assert(!verif_thrown, "C03: no EndOfEntityException escapes the token-sensing step, however many entities end here");
  __CPROVER_assert(curToken == THE_TOKEN && CALLS == k + 1, "C03: the step ends with the next real token");
  __CPROVER_assert(!HAVE_HANDLER || EOE_EVENTS == k, "C03: one endEntityReference event per entity that ended");
}
