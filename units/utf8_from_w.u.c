//@ unit utf8_from_w
//@ props C05 C02 C01 C04
//@ kind W
//@ def quick NB=5 MC=3
//@ def thorough NB=7 MC=4
//@ cbmc all --unwind 10 --unwinding-assertions
//@ entry h_utf8_from_w
//@ note W: complete for every byte string of length <= NB and every maxChars <= MC (loops fully unwound, unwinding assertions on); the step to longer buffers rests on the loop body reading only [srcPtr, srcPtr+4) and the three cursors (argued in DESIGN, not machine-checked)
//@ note getMemoryManager() and the exception message arguments are dropped by R8
#define VERIF_DEFINE_GHOSTS
#include "verif_prelude.h"
#include "unicode.h"

//@ table src/xercesc/util/XMLUTF8Transcoder.cpp gUTFBytes
//@ table src/xercesc/util/XMLUTF8Transcoder.cpp gUTFByteIndicator
//@ table src/xercesc/util/XMLUTF8Transcoder.cpp gUTFByteIndicatorTest
//@ table src/xercesc/util/XMLUTF8Transcoder.cpp gUTFOffsets

/*@extract src/xercesc/util/XMLUTF8Transcoder.hpp XMLUTF8Transcoder::checkTrailingBytes
static
@*/

/*@extract src/xercesc/util/XMLUTF8Transcoder.cpp XMLUTF8Transcoder::transcodeFrom
call checkTrailingBytes => XMLUTF8Transcoder_checkTrailingBytes
throws XMLUTF8Transcoder_checkTrailingBytes
@*/

struct { XMLByte a[NB]; } SRC;
struct { XMLCh a[MC]; } OUT;
struct { unsigned char a[MC]; } SZ;

void h_utf8_from_w(void)
{
  XMLSize_t n, m, be = 0;
  VERIF_INPUT(n); VERIF_INPUT(m); VERIF_INPUT(SRC);   /* all byte strings */
  VERIF_ASSUME(n <= NB && m <= MC);
  XMLByte *src = SRC.a + (NB - n);        /* end-aligned: reading past srcEnd leaves the object */
  XMLCh *out = OUT.a + (MC - m);
  unsigned char *sz = SZ.a + (MC - m);
  verif_thrown = 0;

  XMLSize_t r = XMLUTF8Transcoder_transcodeFrom(src, n, out, m, &be, sz);
  VERIF_CANARY("after call");

  /* reference decoding per Unicode Table 3-7, compared with everything the call reported */
  XMLSize_t i = 0, o = 0;
  int stop = 0;           /* 1: must stop here without throwing; 2: ill-formed here */
  while (i < n && o < m && !stop) {
    uint32_t cp = 0;
    int L = spec_utf8_decode(src + i, n - i, &cp);
    if (L == SPEC_TRUNC) { stop = 1; break; }
    if (L == SPEC_ILL) { stop = 2; break; }
    if (cp < 0x10000) {
      if (!verif_thrown && o < r) {
        __CPROVER_assert(out[o] == (XMLCh)cp, "C05: BMP scalar decoded exactly (Table 3-6)");
        __CPROVER_assert(sz[o] == L, "C04: charSizes records the sequence length");
      }
      o += 1;
    } else {
      if (o + 2 > m) { stop = 1; break; }   /* pair does not fit: deferred to the next call */
      uint16_t u[2];
      spec_utf16_units(cp, u);
      if (!verif_thrown && o + 1 < r) {
        __CPROVER_assert(out[o] == u[0] && out[o + 1] == u[1], "C05: supplementary scalar decoded to its surrogate pair (D91)");
        __CPROVER_assert(sz[o] == L && sz[o + 1] == 0, "C04: charSizes of a pair is (len, 0)");
      }
      o += 2;
    }
    i += (XMLSize_t)L;
  }
  if (stop == 2) {
    /* ill-formed sequence at byte i after o characters: never decoded. Either rejected now, or (fewer than 6
       bytes left) nothing of it consumed so that it is rejected when more bytes arrive */
    __CPROVER_assert(verif_thrown || (r == o && be == i && n - i <= 5),
                     "C05/C02: ill-formed UTF-8 sequence is rejected or left unconsumed, never decoded");
    if (n - i >= 6) __CPROVER_assert(verif_thrown, "C05/C02: ill-formed UTF-8 sequence with 6 bytes available is rejected");
    if (verif_thrown)
      __CPROVER_assert(verif_throw_type == VT_UTFDataFormatException || verif_throw_type == VT_TranscodingException,
                       "C01: documented exception type");
  } else {
    __CPROVER_assert(!verif_thrown, "C05: well-formed input never throws");
    __CPROVER_assert(r == o, "C05: number of characters produced");
    __CPROVER_assert(be == i, "C04: bytesEaten = whole sequences only; a truncated tail or a pair that does not fit is not consumed");
  }
  __CPROVER_assert(verif_thrown || (r <= m && be <= n), "C01: T_iface bounds");
}
