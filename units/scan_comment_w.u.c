//@ unit scan_comment_w
//@ props C02 C03 C01
//@ kind W
//@ def quick NIN=5
//@ def thorough NIN=7
//@ cbmc all --unwind 10 --unwinding-assertions
//@ cbmc all --arrays-uf-always
//@ entry h_scanComment
//@ note W: complete for every character sequence of length <= NIN following '<!--'
//@ note reader abstraction, emitError, buffer and document-handler sinks are trusted stubs (contracts/scanner_stubs.inc); XMLBufBid RAII, fElemStack.setCommentOrPISeen and the binToText message formatting are dropped by sub rules
#define VERIF_DEFINE_GHOSTS
#include "verif_prelude.h"
//@ include scanner_stubs.inc

/*@extract src/xercesc/internal/XMLScanner.cpp XMLScanner::scanComment
sub XMLBufBid bbComment\(&fBufMgr\); => XB_reset();
sub \bStates curState => enum States curState
sub fReaderMgr\.getNextChar\( => RM_getNextChar(
sub fReaderMgr\.skipPastChar\( => RM_skipPastChar(
sub fReaderMgr\.getCurrentReader\(\)->isXMLChar\( => RD_isXMLChar(
sub XMLCh tmpBuf\[9\];\s*XMLString::binToText\s*\([^;]*\); =>
sub emitError\(XMLErrs::InvalidCharacter, tmpBuf\) => SC_emitError(XMLErrs::InvalidCharacter)
sub (?<!SC_)emitError\( => SC_emitError(
sub bbComment\.append\( => XB_append(
sub if \(fDocHandler\)\s*\{\s*fDocHandler->docComment\s*\(\s*bbComment\.getRawBuffer\(\)\s*\);\s*\} => DH_text(XB_getRawBuffer());
sub if \(! fElemStack\.isEmpty\(\)\)\s*fElemStack\.setCommentOrPISeen\(\); =>
@*/

/* spec: XML 1.0 production [15]  Comment ::= '<!--' ((Char - '-') | ('-' (Char - '-')))* '-->'   (after '<!--') */
void h_scanComment(void)
{
  VERIF_INPUT(INPUT); VERIF_INPUT(LEN); VERIF_INPUT(XMLCHAR_T);
  VERIF_ASSUME(LEN <= NIN);
  VERIF_ASSUME(XMLCHAR['-'] && XMLCHAR['>']);   /* '-' and '>' are Chars (production [2]; proved of the real tables in chartab_*) */
  for (XMLSize_t k = 0; k < NIN; k++) VERIF_ASSUME(k >= LEN || INPUT.a[k] != 0);   /* 0 is the reader's end-of-input value */
  POS = 0; ERR_COUNT = 0; ERR_FATAL_COUNT = 0; DOC_EVENTS = 0; OUT_OVERFLOW = 0; verif_thrown = 0;
  assume_surrogates_not_char();
  XMLScanner_scanComment();
  VERIF_CANARY("after call");

  /* reference recogniser */
  XMLSize_t i = 0, clen = 0; int wf = 0, bad = 0;
  XMLCh text[NIN + 1];
  while (i < LEN) {
    XMLCh c = INPUT.a[i];
    if (c == '-' && i + 1 < LEN && INPUT.a[i + 1] == '-') { wf = (i + 2 < LEN && INPUT.a[i + 2] == '>') && !bad; if (!(i + 2 < LEN && INPUT.a[i + 2] == '>')) bad = 1; break; }
    /* a Char: BMP Char per the table, or a well-formed surrogate pair */
    if (c >= 0xD800 && c <= 0xDBFF) {
      if (i + 1 < LEN && INPUT.a[i + 1] >= 0xDC00 && INPUT.a[i + 1] <= 0xDFFF) { text[clen++] = c; text[clen++] = INPUT.a[i + 1]; i += 2; continue; }
      bad = 1;
    } else if ((c >= 0xDC00 && c <= 0xDFFF) || !XMLCHAR[c]) bad = 1;
    text[clen++] = c; i++;
  }
  if (wf) {
    __CPROVER_assert(!verif_thrown && ERR_COUNT == 0, "C02: a well-formed comment is accepted without error");
    __CPROVER_assert(POS == i + 3, "C03: exactly the comment is consumed");
    __CPROVER_assert(DOC_EVENTS == 1 && DOC_LEN == clen, "C03: one docComment event with the comment length");
    for (XMLSize_t k = 0; k < NIN; k++) if (k < clen) __CPROVER_assert(DOC_TEXT.a[k] == text[k], "C03: comment text delivered exactly");
  } else {
    __CPROVER_assert(verif_thrown || ERR_FATAL_COUNT >= 1, "C02: an ill-formed comment ('--' inside, illegal character, broken surrogate pair, unterminated) raises a fatal error");
    if (verif_thrown) __CPROVER_assert(verif_throw_type == VT_UnexpectedEOFException && ERR_FATAL_COUNT >= 1, "C01: documented exception type after UnterminatedComment");
  }
  __CPROVER_assert(!OUT_OVERFLOW && POS <= LEN, "C01: buffers and reader position in range");
}
