//@ unit latin1_to
//@ props C05 C01
//@ kind P
//@ def quick NMAX=8
//@ def thorough NMAX=16
//@ enforce XML88591Transcoder_transcodeTo
//@ entry h_latin1_to
//@ note P: iterations unbounded through the loop contract; buffer LENGTHS are bounded by -DNMAX (srcCount, maxBytes <= NMAX) because cbmc needs finite objects
//@ note spec: U+00bb encodes to byte b for bb <= FF (ISO/IEC 8859-1); any other UTF-16 unit is unrepresentable: exception under UnRep_Throw, substitution character 0x1A under UnRep_RepChar, never silent truncation. "thrown ==> some unit is unrepresentable" needs an existential and is proved in latin1_w (W)
//@ note XMLString::binToText (exception message text only), getMemoryManager() and getEncodingName() are dropped
#define VERIF_DEFINE_GHOSTS
#include "verif_prelude.h"

typedef int UnRepOpts;
//@ enum src/xercesc/util/TransService.hpp UnRepOpts - scope=XMLTranscoder

struct { XMLCh a[NMAX]; } SRC;
struct { XMLByte a[NMAX]; } OUT;
/* the harness hands the buffers end-aligned; the contract names the elements through the objects (precondition below) instead of
 * through the pointers: after the loop havoc cbmc no longer knows what a pointer parameter points to and every srcData[G] becomes
 * a case split over all address-taken objects (probed: 850 K variables, 120 s, against 40 K / 2 s this way) */
#define CLAMP(k) (((k) < NMAX) ? (k) : 0)      /* keeps the index inside the object where the guard of the clause is false */
#define SRCAT(i) (SRC.a[CLAMP((NMAX - srcCount) + (i))])
#define OUTAT(i) (OUT.a[CLAMP((NMAX - maxBytes) + (i))])
/* ghost index: harness-chosen, in no assigns clause */
XMLSize_t G;
#define GI(lim) ((G < (lim)) ? G : 0)
#define MINC ((srcCount < maxBytes) ? srcCount : maxBytes)
#define DONE ((XMLSize_t)(__CPROVER_POINTER_OFFSET(destPtr) - __CPROVER_POINTER_OFFSET(toFill)))

/*@extract src/xercesc/util/XML88591Transcoder.cpp XML88591Transcoder::transcodeTo
sub XMLString::binToText\s*\([^;]*\)\s*; =>
contract
__CPROVER_requires(G < NMAX && srcCount <= NMAX && maxBytes <= NMAX && !verif_thrown)
__CPROVER_requires(options == UnRep_Throw || options == UnRep_RepChar)
__CPROVER_requires(srcData == SRC.a + (NMAX - srcCount) && toFill == OUT.a + (NMAX - maxBytes))
__CPROVER_requires(__CPROVER_r_ok(srcData, srcCount * sizeof(XMLCh)))
__CPROVER_requires(__CPROVER_w_ok(toFill, maxBytes))
__CPROVER_requires(__CPROVER_w_ok(charsEaten_p, sizeof(XMLSize_t)))
__CPROVER_assigns(__CPROVER_object_upto(toFill, maxBytes), *charsEaten_p, verif_thrown, verif_throw_type, verif_throw_code)
/* T_iface + progress: unless it reports, it encodes everything that is available and fits, one byte per unit */
__CPROVER_ensures(!verif_thrown ==> (__CPROVER_return_value == MINC && *charsEaten_p == __CPROVER_return_value))
/* C05: identity on 0..FF */
__CPROVER_ensures((!verif_thrown && G < __CPROVER_return_value && SRCAT(G) < 256) ==> OUTAT(G) == (XMLByte)SRCAT(G))
/* C05: unrepresentable => substitution character, only when the caller asked for it */
__CPROVER_ensures((!verif_thrown && G < __CPROVER_return_value && SRCAT(G) >= 256) ==> (options == UnRep_RepChar && OUTAT(G) == 0x1A))
/* C05: unrepresentable => report under UnRep_Throw (ghost form of: exists unrepresentable unit in the processed range ==> thrown) */
__CPROVER_ensures((options == UnRep_Throw && G < MINC && SRCAT(G) >= 256) ==> verif_thrown)
__CPROVER_ensures(verif_thrown ==> (options == UnRep_Throw && verif_throw_type == VT_TranscodingException && verif_throw_code == XMLExcepts_Trans_Unrepresentable && __CPROVER_return_value == 0))
__CPROVER_ensures(verif_thrown ==> *charsEaten_p == __CPROVER_old(*charsEaten_p))
/* frame inside the buffer, also on the exceptional path */
__CPROVER_ensures((G >= MINC && G < maxBytes) ==> OUTAT(G) == __CPROVER_old(OUTAT(GI(maxBytes))))
loop 1
__CPROVER_assigns(srcPtr, destPtr, __CPROVER_object_upto(toFill, maxBytes), verif_thrown, verif_throw_type, verif_throw_code)
__CPROVER_loop_invariant(!verif_thrown)
__CPROVER_loop_invariant(__CPROVER_same_object(destPtr, toFill) && __CPROVER_POINTER_OFFSET(toFill) <= __CPROVER_POINTER_OFFSET(destPtr) && DONE <= countToDo)
__CPROVER_loop_invariant(__CPROVER_same_object(srcPtr, srcData) && __CPROVER_POINTER_OFFSET(srcPtr) == __CPROVER_POINTER_OFFSET(srcData) + 2 * DONE)
__CPROVER_loop_invariant((G < DONE && SRCAT(G) < 256) ==> OUTAT(G) == (XMLByte)SRCAT(G))
__CPROVER_loop_invariant((G < DONE && SRCAT(G) >= 256) ==> (options == UnRep_RepChar && OUTAT(G) == 0x1A))
__CPROVER_loop_invariant((G >= DONE && G < maxBytes) ==> OUTAT(G) == __CPROVER_loop_entry(OUTAT(GI(maxBytes))))
__CPROVER_decreases(countToDo - DONE)
@*/

void h_latin1_to(void)
{
  XMLSize_t n, m, eaten;
  int opt;
  VERIF_INPUT(n); VERIF_INPUT(m); VERIF_INPUT(opt); VERIF_INPUT(eaten); VERIF_INPUT(G); VERIF_INPUT(SRC); VERIF_INPUT(OUT);
  VERIF_ASSUME(n <= NMAX && m <= NMAX);
  verif_thrown = 0;
  /* end-aligned: any access beyond srcCount / maxBytes leaves the object */
  XML88591Transcoder_transcodeTo(SRC.a + (NMAX - n), n, OUT.a + (NMAX - m), m, &eaten, opt);
  VERIF_CANARY("after call");
}
