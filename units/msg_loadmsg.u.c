//@ unit msg_loadmsg
//@ props C01
//@ kind P
//@ def quick STRN=6 MLN=6 gXMLErrArraySize=4 gXMLValidityArraySize=3 gXMLExceptArraySize=4 gXMLDOMMsgArraySize=3
//@ def thorough STRN=12 MLN=14 gXMLErrArraySize=4 gXMLValidityArraySize=3 gXMLExceptArraySize=4 gXMLDOMMsgArraySize=3
//@ rebind src/xercesc/util/MsgLoaders/InMemory/XercesMessages_en_US.hpp gXMLErrArraySize
//@ rebind src/xercesc/util/MsgLoaders/InMemory/XercesMessages_en_US.hpp gXMLValidityArraySize
//@ rebind src/xercesc/util/MsgLoaders/InMemory/XercesMessages_en_US.hpp gXMLExceptArraySize
//@ rebind src/xercesc/util/MsgLoaders/InMemory/XercesMessages_en_US.hpp gXMLDOMMsgArraySize
//@ enforce InMemMsgLoader_loadMsg
//@ entry h_loadmsg
//@ note P: the copy loop runs through a loop contract; the four message tables are arbitrary (nondet) tables of g...ArraySize - 1 rows of STRN units whose selected row holds a NUL (that every row of the REAL tables is NUL-terminated inside its 128 units and that every message code has a row is checked on the real text in unit msg_tables_w); target buffer as documented by the callers: maxChars + 1 elements, END-aligned
//@ note the domain test XMLString::equals(fMsgDomain, XMLUni::fg...Domain) is replaced by a harness-chosen selector (trusted stub): any domain, also an unknown one
//@ note precondition msgToLoad >= 1: message ids start at 1 (0 is NoError and is never loaded); with id 0 the code would index row (unsigned)-1
#define VERIF_DEFINE_GHOSTS
#include "verif_prelude.h"
//@ include str_common.inc
typedef unsigned int XMLMsgLoader_XMLMsgId;
enum { DOM_none, DOM_fgXMLErrDomain, DOM_fgExceptDomain, DOM_fgValidityDomain, DOM_fgXMLDOMMsgDomain };
int DOMSEL;
XMLSize_t KW;     /* witness: length of the selected message (first NUL of its row) */
/* as in the real tables the row count is SMALLER than the g...ArraySize constant the code tests against (see msg_tables_w) */
#define ROWS_OF(size) ((size) - 1)
XMLCh gXMLErrArray[ROWS_OF(gXMLErrArraySize)][STRN], gXMLValidityArray[ROWS_OF(gXMLValidityArraySize)][STRN], gXMLExceptArray[ROWS_OF(gXMLExceptArraySize)][STRN], gXMLDOMMsgArray[ROWS_OF(gXMLDOMMsgArraySize)][STRN];
#define DOM_SIZE ((DOMSEL == DOM_fgXMLErrDomain) ? gXMLErrArraySize : (DOMSEL == DOM_fgExceptDomain) ? gXMLExceptArraySize : (DOMSEL == DOM_fgValidityDomain) ? gXMLValidityArraySize : (DOMSEL == DOM_fgXMLDOMMsgDomain) ? gXMLDOMMsgArraySize : 0)
#define LOADS (msgToLoad <= DOM_SIZE)
#define HAS_ROW (DOM_SIZE != 0 && msgToLoad <= ROWS_OF(DOM_SIZE))
#define RIX ((msgToLoad - 1) % 3)    /* == msgToLoad - 1 whenever LOADS (table sizes <= 3); keeps unguarded evaluations in bounds */
_Static_assert(gXMLErrArraySize <= 4 && gXMLValidityArraySize <= 4 && gXMLExceptArraySize <= 4 && gXMLDOMMsgArraySize <= 4, "RIX");
#define SELROW ((DOMSEL == DOM_fgXMLErrDomain) ? gXMLErrArray[RIX % ROWS_OF(gXMLErrArraySize)] : (DOMSEL == DOM_fgExceptDomain) ? gXMLExceptArray[RIX % ROWS_OF(gXMLExceptArraySize)] : (DOMSEL == DOM_fgValidityDomain) ? gXMLValidityArray[RIX % ROWS_OF(gXMLValidityArraySize)] : gXMLDOMMsgArray[RIX % ROWS_OF(gXMLDOMMsgArraySize)])
#define OUTLEN ((KW < maxChars) ? KW : maxChars)

/*@extract src/xercesc/util/MsgLoaders/InMemory/InMemMsgLoader.cpp InMemMsgLoader::loadMsg
params const XMLMsgLoader::XMLMsgId msgToLoad , XMLCh* const toFill , const XMLSize_t maxChars
pick 1
ret false
sub XMLString::equals\(fMsgDomain, XMLUni::(\w+)\) => (DOMSEL == DOM_\1)
contract
__CPROVER_requires(G < MLN && maxChars <= MLN && msgToLoad >= 1)
/* ids between the row count and g...ArraySize are outside the contract: the range test admits them but they have no row (finding msg_table_size_mismatch); msg_tables_w shows that no message code lies there */
__CPROVER_requires(HAS_ROW || !LOADS)
__CPROVER_requires(__CPROVER_w_ok(toFill, (maxChars + 1) * sizeof(XMLCh)))
__CPROVER_requires(LOADS ==> (KW < STRN && SELROW[KW] == 0 && NONUL_BEFORE(SELROW, KW)))
__CPROVER_assigns(__CPROVER_object_upto(toFill, (maxChars + 1) * sizeof(XMLCh)))
__CPROVER_ensures(__CPROVER_return_value == LOADS)
/* the message, truncated to maxChars, NUL-terminated inside the maxChars + 1 buffer */
__CPROVER_ensures(LOADS ==> toFill[OUTLEN] == 0)
__CPROVER_ensures((LOADS && G < OUTLEN) ==> toFill[G] == SELROW[G % STRN])
loop 1
__CPROVER_assigns(srcPtr, outPtr, __CPROVER_object_upto(toFill, (maxChars + 1) * sizeof(XMLCh)))
__CPROVER_loop_invariant(PTR_IN(srcPtr, SELROW, KW) && PTR_IN(outPtr, toFill, maxChars) && PIDX(srcPtr, SELROW) == PIDX(outPtr, toFill))
__CPROVER_loop_invariant((G < PIDX(outPtr, toFill)) ==> toFill[G] == SELROW[G % STRN])
__CPROVER_decreases(KW - PIDX(srcPtr, SELROW))
@*/

struct { XMLCh a[MLN + 1]; } OUT;
void h_loadmsg(void)
{
  unsigned int id; XMLSize_t maxChars;
  VERIF_INPUT(OUT); VERIF_INPUT(G); VERIF_INPUT(KW); VERIF_INPUT(DOMSEL); VERIF_INPUT(id); VERIF_INPUT(maxChars);
  VERIF_ASSUME(maxChars <= MLN);
  verif_thrown = 0;
  bool ok = InMemMsgLoader_loadMsg(id, OUT.a + (MLN + 1 - (maxChars + 1)), maxChars);
  VERIF_CANARY("after loadMsg");
  if (ok && KW > maxChars && maxChars > 1) VERIF_CANARY("loadMsg: truncated message reachable");
  if (ok && DOMSEL == DOM_fgXMLDOMMsgDomain && KW > 1 && KW < maxChars) VERIF_CANARY("loadMsg: whole message reachable");
  if (!ok && DOMSEL == DOM_fgExceptDomain) VERIF_CANARY("loadMsg: id beyond the table reachable");
  if (ok && DOMSEL == DOM_fgXMLErrDomain && id == ROWS_OF(gXMLErrArraySize)) VERIF_CANARY("loadMsg: last row reachable");
}
