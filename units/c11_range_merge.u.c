//@ unit c11_range_merge
//@ props C11
//@ kind B
//@ def quick NR=2 VMAX=63
//@ def all OP=0
//@ def thorough NR=2 VMAX=63
//@ cbmc quick --unwind 6 --unwinding-assertions
//@ cbmc thorough --unwind 6 --unwinding-assertions
//@ entry h_c11_range_merge
//@ note B: bounded stand-in (never a proof of C11): `this` and `tok` each hold up to NR (quick 2, thorough 3) well-formed ranges lo <= hi in any order (unsorted, overlapping, adjacent) over a narrowed code-point universe 0..VMAX (quick 63, thorough 255: the set algebra does not look at magnitudes; SAT time grows steeply with the universe -- 0..1023 already takes a minute for one obligation), ghost code point c anywhere in 0..VMAX; mergeRanges is applied (OP=0; the two sibling units cover the other operations); loops unwound with unwinding assertions. fMaxCount = 4*NR + 2 on both sides; allocation = arena model of contracts/RangeToken_c11.inc (fresh end-aligned block of exactly the requested size per call).
//@ note observation (not an obligation): intersectRanges(tok) with a tok that holds no range at all (fRanges == 0) returns early and leaves `this` unchanged although the intersection with the empty set is empty; excluded by assumption (nb >= 1 for the intersecting operations)
//@ note checked: set semantics over the ghost code point -- after mergeRanges c in this' <=> c in this or c in tok; after subtractRanges (T_RANGE operand) c in this' <=> c in this and not c in tok; subtractRanges with a T_NRANGE operand and intersectRanges: c in this' <=> c in this and c in tok; `tok` keeps its set; no internal-error exception; every access inside the exact allocation
#define VERIF_DEFINE_GHOSTS
#include "verif_prelude.h"
//@ include RangeToken_c11.inc
#define MEMBERS_DOC "member accesses of `this` are prefixed with self-> by the last sub rule of each block"

/*@extract src/xercesc/util/regx/RangeToken.cpp RangeToken::mergeRanges
selfparam RangeToken
sub this->getTokenType\(\) => TOKTYPE(self)
sub tok->getTokenType\(\) => TOKTYPE(tok)
sub fMemoryManager->allocate\s*\( => verif_alloc(
sub fMemoryManager->deallocate\([^;]*\); =>
sub (?<![\w>.])sortRanges\(\) => RangeToken_sortRanges(self)
sub (?<![\w>.])(fRanges|fElemCount|fMaxCount|fSorted|fCompacted|fMap|fNonMapIndex|fCaseIToken)\b => self->\1
method rangeTok->sortRanges => RangeToken_sortRanges
@*/
/*@extract src/xercesc/util/regx/RangeToken.cpp RangeToken::intersectRanges
selfparam RangeToken
sub fMemoryManager->allocate\s*\( => verif_alloc(
sub fMemoryManager->deallocate\([^;]*\); =>
sub (?<![\w>.])sortRanges\(\) => RangeToken_sortRanges(self)
sub (?<![\w>.])compactRanges\(\) => RangeToken_compactRanges(self)
sub (?<![\w>.])(fRanges|fElemCount|fMaxCount|fSorted|fCompacted|fMap|fNonMapIndex|fCaseIToken)\b => self->\1
method tok->sortRanges => RangeToken_sortRanges
method tok->compactRanges => RangeToken_compactRanges
throws RangeToken_compactRanges
@*/
/*@extract src/xercesc/util/regx/RangeToken.cpp RangeToken::subtractRanges
selfparam RangeToken
sub tok->getTokenType\(\) => TOKTYPE(tok)
sub fMemoryManager->allocate\s*\( => verif_alloc(
sub fMemoryManager->deallocate\([^;]*\); =>
sub (?<![\w>.])intersectRanges\(tok\) => RangeToken_intersectRanges(self, tok)
sub (?<![\w>.])sortRanges\(\) => RangeToken_sortRanges(self)
sub (?<![\w>.])compactRanges\(\) => RangeToken_compactRanges(self)
sub (?<![\w>.])(fRanges|fElemCount|fMaxCount|fSorted|fCompacted|fMap|fNonMapIndex|fCaseIToken)\b => self->\1
method tok->sortRanges => RangeToken_sortRanges
method tok->compactRanges => RangeToken_compactRanges
throws RangeToken_compactRanges RangeToken_intersectRanges
@*/

struct RTok A, B;

void h_c11_range_merge(void)
{
  unsigned na, nb; XMLInt32 c; int op; _Bool bneg;
  ARENA_INPUT() VERIF_INPUT(na); VERIF_INPUT(nb); VERIF_INPUT(c); op = OP; VERIF_INPUT(bneg);
  VERIF_ASSUME(na <= NR && nb <= NR && c >= 0 && c <= VMAX && op >= 0 && op <= 2);
  /* an operand without any range (fRanges == 0) makes intersectRanges return early and leave `this` unchanged instead of
     emptying it; the regex parsers never intersect with a token that has no range (every class / category escape adds at
     least one), so the empty operand is excluded here and recorded in the note */
  VERIF_ASSUME(!(op == 2 || (op == 1 && bneg)) || nb >= 1);
  mk_token(&A, T_RANGE, na, 4 * NR + 2, 0, 0);
  mk_token(&B, (op == 1 && bneg) ? T_NRANGE : T_RANGE, nb, 4 * NR + 2, 0, 0);
  WELLFORMED(A.rt.fRanges, na)
  WELLFORMED(B.rt.fRanges, nb)
  int ina = spec_member(A.rt.fRanges, 2 * na, c), inb = spec_member(B.rt.fRanges, 2 * nb, c);
  verif_thrown = 0;
  if (op == 0) RangeToken_mergeRanges(&A.rt, &B.rt);
  else if (op == 1) RangeToken_subtractRanges(&A.rt, &B.rt);
  else RangeToken_intersectRanges(&A.rt, &B.rt);
  VERIF_CANARY("after call");
  __CPROVER_assert(!verif_thrown, "C11(bounded): the range operations do not hit their internal-error branches");
  __CPROVER_assert(A.rt.fElemCount % 2 == 0 && A.rt.fElemCount <= A.rt.fMaxCount, "C11(bounded): element count even and within the allocation");
  int after = (A.rt.fRanges == 0) ? 0 : spec_member(A.rt.fRanges, A.rt.fElemCount, c);
  int expect = (op == 0) ? (ina || inb) : (op == 1 && !bneg) ? (ina && !inb) : (ina && inb);
  __CPROVER_assert(after == expect, "C11(bounded): merge = union, subtract = difference (intersection for an NRANGE operand), intersect = intersection, over a ghost code point");
  __CPROVER_assert(((B.rt.fRanges == 0) ? 0 : spec_member(B.rt.fRanges, B.rt.fElemCount, c)) == inb, "C11(bounded): the operand keeps its set");
  for (unsigned k = 0; 2 * k + 1 < A.rt.fElemCount; k++)
    __CPROVER_assert(A.rt.fRanges[2 * k] <= A.rt.fRanges[2 * k + 1], "C11(bounded): every resulting range is well-formed (start <= end)");
}
