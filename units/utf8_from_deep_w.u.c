//@ unit utf8_from_deep_w
//@ props C05 C02 C01 C04
//@ kind W
//@ timeout quick=600 thorough=1500
//@ note loop bounds per loop (--unwindset, unwinding assertions on every loop): the ASCII group loop runs up to 41 times, the outer loop at most 7 times (one ASCII group, then the symbolic tail)
//@ def quick NB=37 MC=39
//@ def thorough NB=37 MC=39
//@ cbmc all --unwind 8 --unwindset XMLUTF8Transcoder_transcodeFrom.0:41,h_utf8_from_deep_w.0:34 --unwinding-assertions
//@ entry h_utf8_from_deep_w
//@ note W: same obligations as utf8_from_w for the byte strings made of 33 ASCII bytes (concrete) followed by every byte string of NB-33 bytes, maxChars = MC (room for everything): reaches the code that behaves differently once more than 32 characters have been produced in the call (errors are deferred so that they are reported close to their position)
//@ note getMemoryManager() and the exception message arguments are dropped by R8
#define VERIF_DEFINE_GHOSTS
#include "verif_prelude.h"
#include "unicode.h"

//@ table src/xercesc/util/XMLUTF8Transcoder.cpp gUTFBytes
//@ table src/xercesc/util/XMLUTF8Transcoder.cpp gUTFByteIndicator
//@ table src/xercesc/util/XMLUTF8Transcoder.cpp gUTFByteIndicatorTest
//@ table src/xercesc/util/XMLUTF8Transcoder.cpp gUTFOffsets

/*@extract src/xercesc/util/XMLUTF8Transcoder.hpp XMLUTF8Transcoder::checkTrailingBytes
static
@*/

/*@extract src/xercesc/util/XMLUTF8Transcoder.cpp XMLUTF8Transcoder::transcodeFrom
call checkTrailingBytes => XMLUTF8Transcoder_checkTrailingBytes
throws XMLUTF8Transcoder_checkTrailingBytes
@*/

struct { XMLByte a[NB]; } SRC;
struct { XMLCh a[MC]; } OUT;
struct { unsigned char a[MC]; } SZ;

void h_utf8_from_deep_w(void)
{
  XMLSize_t n, m, be = 0;
  VERIF_INPUT(SRC);
  n = NB; m = MC;            /* lengths fixed: the shorter cases and every maxChars are in utf8_from_w */
  for (int k = 0; k < 33; k++) SRC.a[k] = 0x78;  /* 33 times 'x' */
  XMLByte *src = SRC.a + (NB - n);        /* end-aligned: reading past srcEnd leaves the object */
  XMLCh *out = OUT.a + (MC - m);
  unsigned char *sz = SZ.a + (MC - m);
  verif_thrown = 0;

  XMLSize_t r = XMLUTF8Transcoder_transcodeFrom(src, n, out, m, &be, sz);
  VERIF_CANARY("after call");

  /* reference decoding per Unicode Table 3-7, compared with everything the call reported */
  /* the concrete ASCII prefix (its decoding is what utf8_from_w proves; here it only has to be delivered) */
  { XMLSize_t gq; VERIF_INPUT(gq); VERIF_ASSUME(gq < 33);
    if (!verif_thrown) { __CPROVER_assert(r >= 33 && out[gq] == 0x78 && sz[gq] == 1, "C05: the ASCII prefix is decoded one byte per character"); } }
  XMLSize_t i = 33, o = 33;
  int stop = 0;           /* 1: must stop here without throwing; 2: ill-formed here */
  while (i < n && o < m && !stop) {
    uint32_t cp = 0;
    int L = spec_utf8_decode(src + i, n - i, &cp);
    if (L == SPEC_TRUNC) { stop = 1; break; }
    if (L == SPEC_ILL) { stop = 2; break; }
    if (cp < 0x10000) {
      if (!verif_thrown && o < r) {
        __CPROVER_assert(out[o] == (XMLCh)cp, "C05: BMP scalar decoded exactly (Table 3-6)");
        __CPROVER_assert(sz[o] == L, "C04: charSizes records the sequence length");
      }
      o += 1;
    } else {
      if (o + 2 > m) { stop = 1; break; }   /* pair does not fit: deferred to the next call */
      uint16_t u[2];
      spec_utf16_units(cp, u);
      if (!verif_thrown && o + 1 < r) {
        __CPROVER_assert(out[o] == u[0] && out[o + 1] == u[1], "C05: supplementary scalar decoded to its surrogate pair (D91)");
        __CPROVER_assert(sz[o] == L && sz[o + 1] == 0, "C04: charSizes of a pair is (len, 0)");
      }
      o += 2;
    }
    i += (XMLSize_t)L;
  }
  if (stop == 2) {
    /* ill-formed sequence at byte i after o characters: never decoded. Either rejected now, or (fewer than 6
       bytes left) nothing of it consumed so that it is rejected when more bytes arrive */
    __CPROVER_assert(verif_thrown || (r == o && be == i && (n - i <= 5 || o > 32)),
                     "C05/C02: ill-formed UTF-8 sequence is rejected or left unconsumed (when characters before it are delivered first), never decoded and never skipped");
    if (n - i >= 6 && o <= 32) { __CPROVER_assert(verif_thrown, "C05/C02: ill-formed UTF-8 sequence with 6 bytes available is rejected"); }
    if (verif_thrown)
      __CPROVER_assert(verif_throw_type == VT_UTFDataFormatException || verif_throw_type == VT_TranscodingException,
                       "C01: documented exception type");
  } else {
    __CPROVER_assert(!verif_thrown, "C05: well-formed input never throws");
    __CPROVER_assert(r == o, "C05: number of characters produced");
    __CPROVER_assert(be == i, "C04: bytesEaten = whole sequences only; a truncated tail or a pair that does not fit is not consumed");
  }
  __CPROVER_assert(verif_thrown || (r <= m && be <= n), "C01: T_iface bounds");
}
