//@ unit sax2_prefixmap_w
//@ props C06 C03
//@ kind W
//@ def quick NATT=3
//@ def thorough NATT=5
//@ cbmc all --unwind 7 --unwinding-assertions
//@ entry h_sax2_prefixmap
//@ note fragment of SAX2XMLReaderImpl::startElement (the namespace-declaration pass over the attribute list), verified as a function of its own: complete for attribute lists of <= NATT entries, namespace-prefixes feature on and off
//@ note stubs: an attribute is a record (prefix id, name id, value id); strings are ids, XMLString::equals compares ids (null and "" alike); fDocHandler->startPrefixMapping, fPrefixesStorage->addOrFind, fPrefixes->push, fTempAttrVec and fPrefixCounts are recording sinks
#define VERIF_DEFINE_GHOSTS
#include "verif_prelude.h"
/* strings are ids: 0 = null pointer, ID_EMPTY = "", ID_XMLNS = "xmlns", every other id an ordinary name / value; two strings are
 * equal iff their ids are equal (XMLString::equals treats null and "" alike) */
enum { ID_NULL = 0, ID_XMLNS = 1, ID_EMPTY = 3 };
struct XMLAttr { int prefix; int name; int valueId; }; typedef struct XMLAttr XMLAttr;
struct { XMLAttr a[NATT]; } ATTS;
_Bool fNamespacePrefix; int HAVE_HANDLER;
int EV_N; int EV_PREFIX[NATT]; int EV_URI[NATT];       /* startPrefixMapping events: prefix id (ID_EMPTY = empty prefix), uri value id */
int PUSHED_N; int PUSHED[NATT]; int KEPT_N; int KEPT[NATT]; int COUNT_PUSHED; XMLSize_t COUNT_VALUE;
static const XMLAttr* AL_elementAt(XMLSize_t i) { return &ATTS.a[i]; }
static bool ST_equals(int a, int b) { return a == b || ((a == ID_NULL || a == ID_EMPTY) && (b == ID_NULL || b == ID_EMPTY)); }
static void DH_startPrefixMapping(int prefixId, int uriId) { if (EV_N < NATT) { EV_PREFIX[EV_N] = prefixId; EV_URI[EV_N] = uriId; } EV_N++; }
static unsigned int PS_addOrFind(int prefixId) { return (unsigned int)(prefixId + 1000); }
static void PX_push(unsigned int id) { if (PUSHED_N < NATT) PUSHED[PUSHED_N] = (int)id; PUSHED_N++; }
static void TV_add(const XMLAttr *a) { if (KEPT_N < NATT) KEPT[KEPT_N] = (int)(a - ATTS.a); KEPT_N++; }
static void PC_push(XMLSize_t n) { COUNT_PUSHED++; COUNT_VALUE = n; }
static void TV_clear(void) { KEPT_N = 0; }
#define DH_PRESENT (HAVE_HANDLER)

/*@extract src/xercesc/parsers/SAX2XMLReaderImpl.cpp SAX2XMLReaderImpl::startElement
as SAX2_nsdecl_pass
fragment XMLSize_t numPrefix = 0; ||| fPrefixCounts->push\(numPrefix\)\s*;
sig void SAX2_nsdecl_pass(XMLSize_t attrCount)
sub* fTempAttrVec->removeAllElements\(\) => TV_clear()
sub* const XMLCh\*\s+(\w+)\s*= => int \1 =
sub* attrList\.elementAt\( => AL_elementAt(
sub* (\w+)->getPrefix\(\) => \1->prefix
sub* (\w+)->getName\(\) => \1->name
sub* (\w+)->getValue\(\) => \1->valueId
sub* \*prefix\b => (prefix != ID_EMPTY)
sub* XMLString::equals\( => ST_equals(
sub* XMLUni::fgXMLNSString => ID_XMLNS
sub* XMLUni::fgZeroLenString => ID_EMPTY
sub* fTempAttrVec->addElement\(\(XMLAttr\*\)\s*(\w+)\) => TV_add(\1)
sub* if\s*\(fDocHandler\) => if (DH_PRESENT)
sub* fDocHandler->startPrefixMapping\( => DH_startPrefixMapping(
sub* fPrefixesStorage->addOrFind\( => PS_addOrFind(
sub* fPrefixes->push\( => PX_push(
sub* fPrefixCounts->push\( => PC_push(
@*/

/* spec (Namespaces in XML 1.0 section 3 + SAX2 ContentHandler.startPrefixMapping): an attribute is a namespace declaration iff
   its name is "xmlns" or its prefix is "xmlns"; each one produces exactly one startPrefixMapping(prefix, uri) event, in document
   order, before startElement; with namespace-prefixes off the declarations are removed from the reported attribute list */
void h_sax2_prefixmap(void)
{
  XMLSize_t n;
  VERIF_INPUT(ATTS); VERIF_INPUT(n); VERIF_INPUT(fNamespacePrefix);
  VERIF_ASSUME(n <= NATT);
  for (int k = 0; k < NATT; k++) VERIF_ASSUME(ATTS.a[k].prefix >= 0 && ATTS.a[k].prefix <= 5 && ATTS.a[k].prefix != 2 && ATTS.a[k].name >= 1 && ATTS.a[k].name <= 1000 && ATTS.a[k].name != ID_EMPTY
                                             && ATTS.a[k].valueId != 0);   /* prefix: null, "xmlns", "", two ordinary prefixes; name: "xmlns" or any ordinary name; value: any non-null string */
  HAVE_HANDLER = 1; EV_N = 0; PUSHED_N = 0; KEPT_N = 2; COUNT_PUSHED = 0; verif_thrown = 0;
  SAX2_nsdecl_pass(n);
  VERIF_CANARY("after pass");
  int decls = 0, kept = 0;
  for (int k = 0; k < NATT; k++) if ((XMLSize_t)k < n) {
    const XMLAttr *a = &ATTS.a[k];
    int noprefix = (a->prefix == ID_NULL || a->prefix == ID_EMPTY);
    int isdecl = (a->prefix == ID_XMLNS) || (noprefix && a->name == ID_XMLNS);
    if (isdecl) {
      if (decls < EV_N && decls < NATT) {
        __CPROVER_assert(EV_URI[decls] == a->valueId, "C06: startPrefixMapping carries the declared namespace name, in document order");
        __CPROVER_assert(EV_PREFIX[decls] == (a->prefix == ID_XMLNS ? a->name : ID_EMPTY), "C06: startPrefixMapping carries the declared prefix (empty for xmlns=...)");
        __CPROVER_assert(PUSHED[decls] == (int)PS_addOrFind(EV_PREFIX[decls]), "C06: the prefix is pushed for the matching endPrefixMapping");
      }
      decls++;
    } else {
      if (!fNamespacePrefix && kept < KEPT_N && kept < NATT) __CPROVER_assert(KEPT[kept] == k, "C06: ordinary attributes are reported unchanged and in order");
      kept++;
    }
  }
  __CPROVER_assert(EV_N == decls && PUSHED_N == decls, "C06: exactly one startPrefixMapping event and one pushed prefix per namespace declaration (feature namespace-prefixes on or off)");
  __CPROVER_assert(COUNT_PUSHED == 1 && COUNT_VALUE == (XMLSize_t)decls, "C06: the number of mappings of this element is recorded for endElement");
  if (!fNamespacePrefix) __CPROVER_assert(KEPT_N == kept, "C06: with namespace-prefixes off exactly the non-declaration attributes are reported");
}
