//@ unit ser_cls_XMLDateTime_ms
//@ props C16
//@ kind W
//@ def all SER_STRICT_MS=1
//@ cbmc all --unwind 10 --unwinding-assertions
//@ entry h_ser_cls_XMLDateTime
//@ note W: the two element loops of XMLDateTime::serialize (TOTAL_SIZE = 8 fields, TIMEZONE_ARRAYSIZE = 2, both from the real header) are unwound completely; the real body runs twice on one object: store mode onto the tape, then -- after the whole object has been given arbitrary values again -- load mode from the tape; every member value is symbolic
//@ note tape engine (contracts/ser_tape.inc): operator<< / operator>> / writeSize / readSize / writeString / readString and the sub-object serialisers (XTemplateSerializer::storeObject/loadObject, DatatypeValidator::storeDV/loadDV, Base::serialize ...) are trusted stubs that record / check (type tag, value); the tag of a streamed operand comes from its REAL type (member types from the real class declaration, casts from the code) via _Generic; strings, containers and pointers to serialisable objects are opaque ids (the pointer value stands for the object; loading yields the id that was stored); the byte-level engine is the subject of units ser_primitives, ser_fillflush, ser_rawbytes
//@ note compares also fMilliSecond (the fraction of a second; fValue[MiliSecond] is "not to be used directly") and fHasTime, which XMLDateTime::compareOrder consults: they are part of the VALUE of a dateTime / time facet (maxInclusive, enumeration ...) that travels through AbstractNumericFacetValidator::storeClusive / XMLNumber::loadNumber
//@ note compared after load: fValue[0..8), fTimeZone[0..2), fStart, fEnd, fBuffer, fBufferMaxLen, fMilliSecond, fHasTime; NOT compared: fMemoryManager
//@ note class invariant assumed for the stored object: a null fBuffer has capacity 0; string lengths are not modelled (ids)
#define VERIF_DEFINE_GHOSTS
#include "verif_prelude.h"
//@ include ser_tape.inc
//@ include ser_cls_XMLDateTime_body.inc
