//@ unit xmlstring_ws
//@ props C09 C03 C01
//@ kind W
//@ def quick NB=6
//@ def thorough NB=9
//@ cbmc quick --unwind 16 --unwinding-assertions
//@ cbmc thorough --unwind 22 --unwinding-assertions
//@ entry h_xmlstring_ws
//@ note W: complete for every NUL-terminated XMLCh string of length 0..NB (quick 6, thorough 9), in place in a buffer of exactly length+1 elements (end-aligned); loops fully unwound, unwinding assertions on
//@ note specification: XML Schema Part 2 4.3.6 whiteSpace (replace, collapse) written as reference functions in spec/xsd_lexical.h; removeWS = the string without #x9 #xA #xD #x20
//@ note memmove (XMLString::moveChars) is defined in the unit per ISO C 7.21.2.2 as a direction-aware byte loop (cbmc 6.11's built-in memcpy/memmove models are imprecise for symbolic sizes)
#define VERIF_DEFINE_GHOSTS
#include "verif_prelude.h"
#include "xsd_lexical.h"

void *memmove(void *dst, const void *src, size_t n)
{
  char *d = (char *)dst; const char *s = (const char *)src;
  if (__CPROVER_POINTER_OFFSET(d) <= __CPROVER_POINTER_OFFSET(s) || !__CPROVER_same_object(d, s)) { for (size_t i = 0; i < n; i++) d[i] = s[i]; }
  else { for (size_t i = n; i > 0; i--) d[i - 1] = s[i - 1]; }
  return dst;
}

/*@extract src/xercesc/util/XMLString.hpp XMLString::stringLen
params const XMLCh* const src
@*/
/*@extract src/xercesc/util/XMLString.hpp XMLString::moveChars
@*/
/*@extract src/xercesc/util/XMLString.cpp XMLString::isWSReplaced
@*/
/*@extract src/xercesc/util/XMLString.cpp XMLString::replaceWS
@*/
/*@extract src/xercesc/util/XMLString.cpp XMLString::isWSCollapsed
call isWSReplaced => XMLString_isWSReplaced
@*/
/*@extract src/xercesc/util/XMLString.cpp XMLString::collapseWS
call isWSReplaced => XMLString_isWSReplaced
call replaceWS => XMLString_replaceWS
call stringLen => XMLString_stringLen
call isWSCollapsed => XMLString_isWSCollapsed
@*/
/*@extract src/xercesc/util/XMLString.cpp XMLString::removeWS
@*/

struct { XMLCh a[NB + 1]; } IN, B1, B2, B3;

void h_xmlstring_ws(void)
{
  XMLSize_t n;
  VERIF_INPUT(IN); VERIF_INPUT(n);
  VERIF_ASSUME(n <= NB);
  XMLCh *s = IN.a + (NB - n), *r = B1.a + (NB - n), *c = B2.a + (NB - n), *x = B3.a + (NB - n);
  VERIF_ASSUME(s[n] == 0);
  for (XMLSize_t i = 0; i < n; i++) VERIF_ASSUME(s[i] != 0);
  for (XMLSize_t i = 0; i <= n; i++) { r[i] = s[i]; c[i] = s[i]; x[i] = s[i]; }
  uint16_t rr[NB + 1], cr[NB + 1];
  size_t rn = spec_ws_replace(s, n, rr), cn = spec_ws_collapse(s, n, cr);
  int has_trc = 0, is_collapsed = (cn == n);
  for (XMLSize_t i = 0; i < n; i++) { if (s[i] == 0x9 || s[i] == 0xA || s[i] == 0xD) has_trc = 1; if (i < cn && cr[i] != s[i]) is_collapsed = 0; }
  verif_thrown = 0;
  bool isr = XMLString_isWSReplaced(s);
  bool isc = XMLString_isWSCollapsed(s);
  XMLString_replaceWS(r, 0);
  XMLString_collapseWS(c, 0);
  XMLString_removeWS(x, 0);
  VERIF_CANARY("after call");
  __CPROVER_assert((isr != 0) == !has_trc, "C09: isWSReplaced <=> no #x9 #xA #xD (4.3.6 replace)");
  __CPROVER_assert((isc != 0) == (is_collapsed != 0), "C09: isWSCollapsed <=> the string equals its collapsed form (4.3.6 collapse)");
  for (XMLSize_t i = 0; i < rn; i++) __CPROVER_assert(r[i] == rr[i], "C09: replaceWS = 4.3.6 replace");
  __CPROVER_assert(r[rn] == 0, "C01: replaceWS keeps the terminator");
  for (XMLSize_t i = 0; i < cn; i++) __CPROVER_assert(c[i] == cr[i], "C09: collapseWS = 4.3.6 collapse");
  __CPROVER_assert(c[cn] == 0, "C09: collapseWS: length of the collapsed form, terminated");
  __CPROVER_assert(XMLString_isWSCollapsed(c), "C09: the output of collapseWS satisfies isWSCollapsed");
  { /* idempotent */
    XMLCh c2[NB + 1];
    for (XMLSize_t i = 0; i <= cn; i++) c2[i] = c[i];
    XMLString_collapseWS(c2, 0);
    for (XMLSize_t i = 0; i <= cn; i++) __CPROVER_assert(c2[i] == c[i], "C09: collapseWS is idempotent");
  }
  { /* removeWS */
    XMLSize_t m = 0;
    for (XMLSize_t i = 0; i < n; i++) if (!SPEC_IS_XMLWS(s[i])) { __CPROVER_assert(x[m] == s[i], "C09: removeWS keeps exactly the non-white-space characters, in order"); m++; }
    __CPROVER_assert(x[m] == 0, "C09: removeWS: terminated after the last kept character");
  }
}
