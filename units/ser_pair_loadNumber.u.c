//@ unit ser_pair_loadNumber
//@ props C16
//@ kind L
//@ entry h_ser_pair_loadNumber
//@ note L: loop-free; the real body of XMLNumber::loadNumber(numType, serEng), the load-side counterpart of `serEng << XMLNumber*` in AbstractNumericFacetValidator::storeClusive (the number type itself travels separately: units ser_cls_DecimalDatatypeValidator, _Double.., _Float.., ser_cls_DateTimeValidator), for every number type Float .. DateTime (symbolic)
//@ note tape engine (contracts/ser_tape.inc): operator<< / operator>> / writeSize / readSize / writeString / readString and the sub-object serialisers (XTemplateSerializer::storeObject/loadObject, DatatypeValidator::storeDV/loadDV, Base::serialize ...) are trusted stubs that record / check (type tag, value); the tag of a streamed operand comes from its REAL type (member types from the real class declaration, casts from the code) via _Generic; strings, containers and pointers to serialisable objects are opaque ids (the pointer value stands for the object; loading yields the id that was stored); the byte-level engine is the subject of units ser_primitives, ser_fillflush, ser_rawbytes
//@ note `serEng << data` writes the DYNAMIC class of the number (modelled in the harness: class tag of the class whose getNumberType / role is E: Float <-> XMLFloat, Double <-> XMLDouble, BigDecimal <-> XMLBigDecimal, DateTime <-> XMLDateTime -- the specification), `serEng >> x` with x of static type X* accepts only that class: the case of loadNumber selected by numType must read with the class of the stored object
#define VERIF_DEFINE_GHOSTS
#include "verif_prelude.h"
//@ include ser_tape.inc
#undef XMLNumber_loadNumber
typedef void XMLNumber;
typedef int XMLNumber_NumberType;
typedef struct XMLFloat XMLFloat; typedef struct XMLDouble XMLDouble; typedef struct XMLBigDecimal XMLBigDecimal; typedef struct XMLDateTime XMLDateTime;
//@ enum src/xercesc/util/XMLNumber.hpp NumberType XMLNumber_ scope=XMLNumber
static char THE_NUM;

/*@extract src/xercesc/util/XMLNumber.cpp XMLNumber::loadNumber
sub* (case\s+[\w:]+\s*:) => \1 ;
streamops serEng
@*/

void h_ser_pair_loadNumber(void)
{
  int ty; VERIF_INPUT(ty); TAPE_INIT();
  VERIF_ASSUME(ty == XMLNumber_Float || ty == XMLNumber_Double || ty == XMLNumber_BigDecimal || ty == XMLNumber_DateTime);
  int cls = ty == XMLNumber_Float ? TG_OBJ_XMLFloat : ty == XMLNumber_Double ? TG_OBJ_XMLDouble : ty == XMLNumber_BigDecimal ? TG_OBJ_XMLBigDecimal : TG_OBJ_XMLDateTime;
  verif_thrown = 0;
  TAPE_BEGIN_STORE();
  TAPE_PUT_ID(cls, &THE_NUM, "serEng<<data")          /* storeClusive: serEng<<data, data of dynamic class cls */
  TAPE_BEGIN_LOAD();
  void *back = XMLNumber_loadNumber(ty, &ENGINE);
  VERIF_CANARY("after store and load");
  __CPROVER_assert(!verif_thrown, "C16: loadNumber does not throw by itself");
  TAPE_END_CHECK();
  __CPROVER_assert(back == (void*)&THE_NUM, "C16: loadNumber yields the stored number, read with the class that the number type names");
}
