//@ unit ascii_from
//@ props C05 C01 C04
//@ kind W
//@ def quick NB=34
//@ def thorough NB=48
//@ cbmc quick --unwind 36 --unwinding-assertions
//@ cbmc thorough --unwind 50 --unwinding-assertions
//@ entry h_ascii_from
//@ note W: complete for every byte string of length <= NB and every maxChars <= NB (loops fully unwound, unwinding assertions on); NB > 33 so that the "more than 32 good characters: stop in front of the bad byte instead of throwing" branch is covered (ascii_w stops at 6 bytes)
//@ note why not P: cbmc 6.11 legacy loop contracts mis-instrument a loop body with two exits on one path (`if (countDone > 32) break;` followed by the throw = return): the second "loop instrumentation was not truncated" assertion reads __in_base_case after the first exit's DEAD statement and fails spuriously (probed on this function); the encoder loops have a single exit and are proved with loop contracts (ascii_to)
//@ note spec: US-ASCII byte b <= 7F decodes to U+00bb; bytes 80..FF are not in the code set and must never be decoded: the call either throws or stops in front of the byte after having made progress (so that the next call meets it first)
//@ note XMLString::binToText (exception message text only), getMemoryManager() and getEncodingName() are dropped; memset is cbmc's built-in model (byte-typed destination)
#define VERIF_DEFINE_GHOSTS
#include "verif_prelude.h"

/*@extract src/xercesc/util/XMLASCIITranscoder.cpp XMLASCIITranscoder::transcodeFrom
sub XMLString::binToText\s*\([^;]*\)\s*; =>
@*/

struct { XMLByte a[NB]; } SRC;
struct { XMLCh a[NB]; } OUT;
struct { unsigned char a[NB]; } SZ;

void h_ascii_from(void)
{
  XMLSize_t n, m, be = 0, k;
  VERIF_INPUT(n); VERIF_INPUT(m); VERIF_INPUT(SRC); VERIF_INPUT(OUT); VERIF_INPUT(SZ);
  VERIF_ASSUME(n <= NB && m <= NB);
  XMLByte *src = SRC.a + (NB - n);        /* end-aligned */
  XMLCh *out = OUT.a;                   /* start-aligned here (cost); the end-aligned overrun check of the same code is in ascii_w */
  unsigned char *sz = SZ.a;
  struct { XMLCh a[NB]; } OUT0 = OUT;     /* snapshots for the frame */
  struct { unsigned char a[NB]; } SZ0 = SZ;
  verif_thrown = 0;

  XMLSize_t r = XMLASCIITranscoder_transcodeFrom(src, n, out, m, &be, sz);
  VERIF_CANARY("after call");

  XMLSize_t cnt = n < m ? n : m, bad = cnt;
  for (k = 0; k < cnt; k++) if (bad == cnt && src[k] >= 0x80) bad = k;
  if (bad < cnt) {
    __CPROVER_assert(verif_thrown || (bad > 0 && r == bad && be == bad),
                     "C05: a byte outside US-ASCII is rejected (or left unconsumed behind good data), never decoded");
    if (verif_thrown)
      __CPROVER_assert(verif_throw_type == VT_TranscodingException && verif_throw_code == XMLExcepts_Trans_Unrepresentable && r == 0 && be == 0,
                       "C01: documented exception, nothing reported as consumed");
  } else {
    __CPROVER_assert(!verif_thrown, "C05: legal input never throws");
    __CPROVER_assert(r == cnt && be == cnt, "C05/C04: everything that is available and fits is decoded, one byte per character");
  }
  if (!verif_thrown) __CPROVER_assert(r <= m && be <= n, "C01: T_iface bounds");
  for (k = 0; k < NB; k++) {
    if (!verif_thrown && k < r) {
      __CPROVER_assert(out[k] == (XMLCh)src[k] && src[k] < 0x80, "C05: byte b <= 7F decodes to U+00bb (identity)");
      __CPROVER_assert(sz[k] == 1, "C04: charSizes is 1 per character");
    }
    if (k < m && k >= cnt) __CPROVER_assert(out[k] == OUT0.a[k], "C01: frame: toFill beyond min(srcCount, maxChars) untouched");
    if (k < m && (verif_thrown || k >= r)) __CPROVER_assert(sz[k] == SZ0.a[k], "C01: frame: charSizes beyond the return value untouched");
  }
}
