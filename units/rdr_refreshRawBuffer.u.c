//@ unit rdr_refreshRawBuffer
//@ props C04 C01
//@ kind P
//@ def quick kRawBufSize=6
//@ def thorough kRawBufSize=16
//@ rebind src/xercesc/internal/XMLReader.hpp kRawBufSize
//@ enforce XMLReader_refreshRawBuffer
//@ replace BinInputStream_readBytes
//@ entry h_refreshRawBuffer
//@ note the fill loop reads until the buffer is full or a read returns 0; that a stream eventually returns 0 or fills the buffer is the decreases clause (each read that lets the loop go on adds at least one byte)
//@ note stream contract S_iface (assumed for every BinInputStream; proved for BinMemInputStream in its own unit): readBytes returns r <= maxToRead, writes nothing outside toFill[0..maxToRead), may throw; the signature is taken from BinMemInputStream::readBytes (the base declaration is pure virtual)
//@ note ghost STREAM_SEQ counts stream reads and is assumed not to wrap (fewer than 2^64 reads)
//@ note the stream contract lets the stream scribble on toFill[r..maxToRead) too: a weaker assumption than "writes only toFill[0..r)", hence a stronger theorem
#define VERIF_DEFINE_GHOSTS
#include "verif_prelude.h"
//@ struct src/xercesc/internal/XMLReader.hpp XMLReader only=auto

/* ghost index into the carried bytes: harness-chosen, in no assigns clause (universal statement without a quantifier) */
XMLSize_t GR;
/* ghost: what the stream returned (written by the stream contract only) */
XMLSize_t STREAM_R;
/* ghost: number of stream reads so far (written by the stream contract only; assumed not to wrap) */
XMLSize_t STREAM_SEQ;
struct BinInputStream { char opaque; };

/*@extract src/xercesc/util/BinMemInputStream.cpp BinMemInputStream::readBytes
as BinInputStream_readBytes
selfparam BinInputStream
declonly
contract
__CPROVER_requires(!verif_thrown)
__CPROVER_requires(maxToRead == 0 || __CPROVER_w_ok(toFill, maxToRead))
/* call-site strengthening: w_ok only sees the enclosing object SELF, so pin the slice to the member array */
__CPROVER_requires(__CPROVER_same_object(toFill, fRawByteBuf) && __CPROVER_POINTER_OFFSET(toFill) - OFS_XMLReader_fRawByteBuf + maxToRead <= sizeof(fRawByteBuf))
__CPROVER_assigns(__CPROVER_object_upto(toFill, maxToRead), STREAM_R, STREAM_SEQ, verif_thrown, verif_throw_type, verif_throw_code)
__CPROVER_ensures(__CPROVER_return_value <= maxToRead && STREAM_R == __CPROVER_return_value && STREAM_SEQ > __CPROVER_old(STREAM_SEQ))
@*/

/*@extract src/xercesc/internal/XMLReader.cpp XMLReader::refreshRawBuffer
method fStream->readBytes => BinInputStream_readBytes
throws BinInputStream_readBytes
contract
//@ include XMLReader_refreshRawBuffer.contract.inc
loop 1
__CPROVER_assigns(index, __CPROVER_object_upto(fRawByteBuf, sizeof(fRawByteBuf)))
__CPROVER_loop_invariant(index <= bytesLeft)
__CPROVER_loop_invariant((GR < index) ==> fRawByteBuf[GR] == __CPROVER_loop_entry(fRawByteBuf[(fRawBufIndex + GR < kRawBufSize) ? fRawBufIndex + GR : 0]))
__CPROVER_loop_invariant((GR >= index && fRawBufIndex + GR < kRawBufSize) ==> fRawByteBuf[fRawBufIndex + GR] == __CPROVER_loop_entry(fRawByteBuf[(fRawBufIndex + GR < kRawBufSize) ? fRawBufIndex + GR : 0]))
__CPROVER_decreases(bytesLeft - index)
loop 2
__CPROVER_assigns(bytesRead, bytesInBuf, __CPROVER_object_upto(fRawByteBuf, sizeof(fRawByteBuf)), STREAM_R, STREAM_SEQ, verif_thrown, verif_throw_type, verif_throw_code)
__CPROVER_loop_invariant(!verif_thrown && bytesLeft <= bytesInBuf && bytesInBuf <= kRawBufSize)
__CPROVER_loop_invariant(STREAM_SEQ >= __CPROVER_loop_entry(STREAM_SEQ))
/* a read that let the loop go on delivered something; the buffer is not full yet */
__CPROVER_loop_invariant((STREAM_SEQ != __CPROVER_loop_entry(STREAM_SEQ)) ==> (bytesInBuf > bytesLeft && bytesInBuf < kRawBufSize))
/* the carried bytes are not touched by the reads (each read starts behind what is already in the buffer) */
__CPROVER_loop_invariant((GR < bytesLeft) ==> fRawByteBuf[GR] == __CPROVER_loop_entry(fRawByteBuf[GR]))
__CPROVER_decreases(kRawBufSize - bytesInBuf)
@*/

void h_refreshRawBuffer(void)
{
  VERIF_INPUT(SELF);
  verif_thrown = 0;
  XMLReader_refreshRawBuffer();
  VERIF_CANARY("after call");
}
