//@ unit ser_cls_ComplexTypeInfo
//@ props C16
//@ kind L
//@ entry h_ser_cls_ComplexTypeInfo
//@ note L: loop-free; the real body of ComplexTypeInfo::serialize runs twice on one object: store mode onto the tape, then -- after the whole object has been given arbitrary values again -- load mode from the tape; every member value is symbolic (full range of its real type)
//@ note tape engine (contracts/ser_tape.inc): operator<< / operator>> / writeSize / readSize / writeString / readString and the sub-object serialisers (XTemplateSerializer::storeObject/loadObject, DatatypeValidator::storeDV/loadDV, Base::serialize ...) are trusted stubs that record / check (type tag, value); the tag of a streamed operand comes from its REAL type (member types from the real class declaration, casts from the code) via _Generic; strings, containers and pointers to serialisable objects are opaque ids (the pointer value stands for the object; loading yields the id that was stored); the byte-level engine is the subject of units ser_primitives, ser_fillflush, ser_rawbytes
//@ note compared after load (store then load restores the value): fAnonymous, fAbstract, fAdoptContentSpec, fAttWithTypeId, fPreprocessed, fDerivedBy, fBlockSet, fFinalSet, fScopeDefined, fContentType, fElementId, fTypeName, fTypeLocalName, fTypeUri, fBaseDatatypeValidator, fDatatypeValidator, fBaseComplexTypeInfo, fContentSpec, fAttWildCard, fAttList, fElements, fAttDefs; NOT compared: fContentModel (rebuilt by getContentModel at the end of load -- call checked), fFormattedModel, fLocator, fContentSpecOrgURI, fContentSpecOrgURISize, fUniqueURI (work data of content-model construction: not stored, must be null / 0 after load -- checked), fMemoryManager (not persistent state: the loading object keeps its own)
//@ note load mode: the constructor-made fAttList / fAttDefs of the loading object are deleted before the stored ones are read (delete = recording stub), and getContentModel(false) is called last (stub): both are checked
#define VERIF_DEFINE_GHOSTS
#include "verif_prelude.h"
//@ include ser_tape.inc
/* ownership model (trusted stubs): `delete p` records p; getContentModel(false) counts its calls and records when it ran */
void *DELETED[4]; int NDELETED; int GCM_CALLS; XMLSize_t GCM_AT_CUR; _Bool GCM_CHECKUPA;
static void OWN_delete(void *p) { if (NDELETED < 4) DELETED[NDELETED] = p; NDELETED++; }
static void* CTI_getContentModel(bool checkUPA) { GCM_CALLS++; GCM_AT_CUR = TAPE_CUR; GCM_CHECKUPA = checkUPA; return 0; }
//@ struct src/xercesc/validators/schema/ComplexTypeInfo.hpp ComplexTypeInfo only=auto structs=DatatypeValidator,ComplexTypeInfo,ContentSpecNode,SchemaAttDef,SchemaAttDefList

/*@extract src/xercesc/validators/schema/ComplexTypeInfo.cpp ComplexTypeInfo::serialize
streamops serEng
method serEng.isStoring => ENG_isStoring
method serEng.isLoading => ENG_isLoading
method serEng.writeSize => ENG_writeSize
method serEng.readSize => ENG_readSize
method serEng.writeString => ENG_writeString
method serEng.readString => ENG_readString
sub* \bdelete\s+(\w+)\s*; => OWN_delete(\1);
call getContentModel => CTI_getContentModel
@*/

#define FIELDS(X) X(fAnonymous) X(fAbstract) X(fAdoptContentSpec) X(fAttWithTypeId) X(fPreprocessed) X(fDerivedBy) X(fBlockSet) X(fFinalSet) X(fScopeDefined) X(fContentType) X(fElementId) X(fTypeName) X(fTypeLocalName) X(fTypeUri) X(fBaseDatatypeValidator) X(fDatatypeValidator) X(fBaseComplexTypeInfo) X(fContentSpec) X(fAttWildCard) X(fAttList) X(fElements) X(fAttDefs)

void h_ser_cls_ComplexTypeInfo(void)
{
  VERIF_INPUT(SELF); TAPE_INIT();
  FIELDS(SER_FIELD_SAVE)
  verif_thrown = 0;
  TAPE_BEGIN_STORE();
  ComplexTypeInfo_serialize(&ENGINE);
  VERIF_INPUT(SELF);                      /* the object that is loaded into: arbitrary contents */
  VERIF_ASSUME(fAttList != sv_fAttList && fAttDefs != sv_fAttDefs);   /* the attribute list / table a fresh object owns are not the stored ones */
  void *own_attlist = fAttList, *own_attdefs = fAttDefs; NDELETED = 0; GCM_CALLS = 0;
  TAPE_BEGIN_LOAD();
  ComplexTypeInfo_serialize(&ENGINE);
  VERIF_CANARY("after store and load");
  __CPROVER_assert(!verif_thrown, "C16: serialize does not throw by itself");
  TAPE_END_CHECK();
  FIELDS(SER_FIELD_CHECK)
  __CPROVER_assert(fFormattedModel == 0 && fLocator == 0 && fContentSpecOrgURI == 0 && fContentSpecOrgURISize == 0 && fUniqueURI == 0,
                   "C16: the members that are not serialised (formatted model, locator, content-spec URI work array) are reset by load");
  __CPROVER_assert(NDELETED == 2 && DELETED[0] == own_attlist && DELETED[1] == own_attdefs,
                   "C01/C16: load frees exactly the attribute list and table the fresh object owned (not the ones just loaded), once each");
  __CPROVER_assert(GCM_CALLS == 1 && GCM_AT_CUR == TAPE_LEN && !GCM_CHECKUPA, "C16: the content model is rebuilt once, after everything has been loaded");
}
