//@ unit dt_compare
//@ props C09
//@ kind W
//@ cbmc all --unwind 9 --unwinding-assertions
//@ entry h_dt_compare
//@ note W: compareOrder's field loop has exactly TOTAL_SIZE = 8 iterations, fully unwound with the unwinding assertion on; complete over every pair / triple of field vectors (8 ints each, every int value), fHasTime, and every non-NaN fMilliSecond (parseMiliSecond only produces finite values in [0,1)). compareResult(int,int,bool) and getRetVal are loop-free and checked over their whole domain.
//@ note both operands are already normalised (fValue[utc] is UTC_UNKNOWN or UTC_STD): for those normalize() is the identity (first postcondition of unit dt_normalize), so the two `xTemp.normalize();` calls are dropped by sub rules. The general case is compareOrder o normalize, covered by dt_normalize + dt_normalize_instant.
//@ note order relation on dateTime, XML Schema Part 2 3.2.7.4 B: "compare P and Q field by field from the year field down to the second field, and return a result as soon as it can be determined"; same zone status on both sides (XMLDateTime::compare only calls compareOrder in that case). fValue[MiliSecond] is a dead slot (always 0, "not to be used directly").
//@ note duration order 3.2.6.2: x < y iff s+x < s+y for each of the four reference dateTimes: compareResult(a,b,strict) folds the per-reference results; DATETIMES must be those four instants
#define VERIF_DEFINE_GHOSTS
#include "verif_prelude.h"
//@ enum src/xercesc/util/XMLNumber.hpp anon:LESS_THAN - scope=XMLNumber
//@ enum src/xercesc/util/XMLDateTime.hpp valueIndex - scope=XMLDateTime
//@ enum src/xercesc/util/XMLDateTime.hpp utcType - scope=XMLDateTime
//@ enum src/xercesc/util/XMLDateTime.hpp timezoneIndex - scope=XMLDateTime
//@ enum src/xercesc/util/XMLDateTime.hpp valueIndex XMLDateTime_ scope=XMLDateTime
//@ enum src/xercesc/util/XMLDateTime.hpp utcType XMLDateTime_ scope=XMLDateTime
//@ struct src/xercesc/util/XMLDateTime.hpp XMLDateTime self=none only=fValue,fTimeZone,fMilliSecond,fHasTime
typedef struct XMLDateTime XMLDateTime;
//@ table src/xercesc/util/XMLDateTime.cpp DATETIMES

/*@extract src/xercesc/util/XMLDateTime.cpp XMLDateTime::compareOrder
sub lTemp\.normalize\(\); =>
sub rTemp\.normalize\(\); =>
@*/
/*@extract src/xercesc/util/XMLDateTime.cpp XMLDateTime::compareResult
as XMLDateTime_compareResult3
params int resultA
@*/
/*@extract src/xercesc/util/XMLDateTime.hpp XMLDateTime::getRetVal
@*/

/* ---- specification, from 3.2.7.4 B: lexicographic on (year, month, day, hour, minute, second [+ fraction]) ---- */
static int spec_order(const struct XMLDateTime *p, const struct XMLDateTime *q)
{
  if (p->fValue[CentYear] != q->fValue[CentYear]) return p->fValue[CentYear] < q->fValue[CentYear] ? LESS_THAN : GREATER_THAN;
  if (p->fValue[Month] != q->fValue[Month]) return p->fValue[Month] < q->fValue[Month] ? LESS_THAN : GREATER_THAN;
  if (p->fValue[Day] != q->fValue[Day]) return p->fValue[Day] < q->fValue[Day] ? LESS_THAN : GREATER_THAN;
  if (p->fValue[Hour] != q->fValue[Hour]) return p->fValue[Hour] < q->fValue[Hour] ? LESS_THAN : GREATER_THAN;
  if (p->fValue[Minute] != q->fValue[Minute]) return p->fValue[Minute] < q->fValue[Minute] ? LESS_THAN : GREATER_THAN;
  if (p->fValue[Second] != q->fValue[Second]) return p->fValue[Second] < q->fValue[Second] ? LESS_THAN : GREATER_THAN;
  if (p->fHasTime && p->fMilliSecond != q->fMilliSecond) return p->fMilliSecond < q->fMilliSecond ? LESS_THAN : GREATER_THAN;
  return EQUAL;
}
#define FLIP(r) ((r) == LESS_THAN ? GREATER_THAN : (r) == GREATER_THAN ? LESS_THAN : (r))
/* 3.2.6.2: strict (x < y must hold for every reference instant): any disagreement is indeterminate;
   non-strict (x <= y): EQUAL on some reference instants and one consistent direction on the others gives that direction */
static int spec_fold(int a, int b, int strict)
{
  if (a == INDETERMINATE || b == INDETERMINATE) return INDETERMINATE;
  if (a == b) return a;
  if (strict) return INDETERMINATE;
  if (a == EQUAL) return b;
  if (b == EQUAL) return a;
  return INDETERMINATE;
}

struct XMLDateTime A, B, C;

void h_dt_compare(void)
{
  VERIF_INPUT(A); VERIF_INPUT(B); VERIF_INPUT(C);
  verif_thrown = 0;
#define NORMALISED(X) (((X).fValue[utc] == UTC_UNKNOWN || (X).fValue[utc] == UTC_STD) && (X).fValue[MiliSecond] == 0 && (X).fMilliSecond == (X).fMilliSecond)
  VERIF_ASSUME(NORMALISED(A) && NORMALISED(B) && NORMALISED(C));
  VERIF_ASSUME(A.fValue[utc] == B.fValue[utc] && B.fValue[utc] == C.fValue[utc] && A.fHasTime == B.fHasTime && B.fHasTime == C.fHasTime);
  int ab = XMLDateTime_compareOrder(&A, &B);
  int ba = XMLDateTime_compareOrder(&B, &A);
  int bc = XMLDateTime_compareOrder(&B, &C);
  int ac = XMLDateTime_compareOrder(&A, &C);
  VERIF_CANARY("after call");
  __CPROVER_assert(ab == spec_order(&A, &B), "C09: compareOrder = field-by-field order of 3.2.7.4 B (year..second, fraction)");
  __CPROVER_assert(ab == LESS_THAN || ab == EQUAL || ab == GREATER_THAN, "C09: compareOrder is total on operands with the same zone status");
  __CPROVER_assert(ba == FLIP(ab), "C09: compareOrder is antisymmetric");
  __CPROVER_assert(!(ab == LESS_THAN && bc == LESS_THAN) || ac == LESS_THAN, "C09: compareOrder is transitive (<)");
  __CPROVER_assert(!(ab == EQUAL && bc == EQUAL) || ac == EQUAL, "C09: compareOrder EQUAL is transitive");
  __CPROVER_assert(!(ab == EQUAL) || bc == ac, "C09: equal values are interchangeable");

  /* ---- duration fold: compareResult(int,int,bool), getRetVal ---- */
  int a, b; _Bool strict;
  VERIF_INPUT(a); VERIF_INPUT(b); VERIF_INPUT(strict);
  VERIF_ASSUME(a >= LESS_THAN && a <= GREATER_THAN && b >= LESS_THAN && b <= INDETERMINATE);   /* compare() returns before folding an INDETERMINATE resultA */
  int f = XMLDateTime_compareResult3(a, b, strict);
  __CPROVER_assert(f == spec_fold(a, b, strict), "C09: compareResult(a,b,strict) folds per-reference results as 3.2.6.2 requires");
  __CPROVER_assert(XMLDateTime_compareResult3(FLIP(a), FLIP(b), strict) == FLIP(f), "C09: compareResult commutes with swapping the operands");
  int c1, c2;
  VERIF_INPUT(c1); VERIF_INPUT(c2);
  VERIF_ASSUME(c1 >= LESS_THAN && c1 <= INDETERMINATE && c2 >= LESS_THAN && c2 <= INDETERMINATE);
  __CPROVER_assert(XMLDateTime_getRetVal(FLIP(c1), FLIP(c2)) == FLIP(XMLDateTime_getRetVal(c1, c2)), "C09: getRetVal commutes with swapping the operands");
  /* 3.2.7.4 C: P (zoned) vs Q (unzoned): P < Q iff P < Q+14:00 ; P > Q iff P > Q-14:00 ; otherwise indeterminate.
     c1 = order against the +14:00 probe (earliest instant Q can denote), c2 = against the -14:00 probe (latest): */
  __CPROVER_assert(!(c1 == LESS_THAN && c2 == GREATER_THAN) || XMLDateTime_getRetVal(c1, c2) == INDETERMINATE, "C09: getRetVal: contradictory probes are indeterminate");
  __CPROVER_assert(!(c1 == c2) || XMLDateTime_getRetVal(c1, c2) == c1, "C09: getRetVal: agreeing probes give that result");

  /* ---- the four reference instants of 3.2.6.2: 1696-09-01T00:00:00Z 1697-02-01T00:00:00Z 1903-03-01T00:00:00Z 1903-07-01T00:00:00Z ---- */
  static const int REF[4][3] = { {1696, 9, 1}, {1697, 2, 1}, {1903, 3, 1}, {1903, 7, 1} };
  __CPROVER_assert(sizeof(DATETIMES) == 4 * TOTAL_SIZE * sizeof(int), "C09: DATETIMES has exactly four reference instants");
  unsigned k; VERIF_INPUT(k); VERIF_ASSUME(k < 4);
  __CPROVER_assert(DATETIMES[k][CentYear] == REF[k][0] && DATETIMES[k][Month] == REF[k][1] && DATETIMES[k][Day] == REF[k][2]
                   && DATETIMES[k][Hour] == 0 && DATETIMES[k][Minute] == 0 && DATETIMES[k][Second] == 0 && DATETIMES[k][MiliSecond] == 0
                   && DATETIMES[k][utc] == UTC_STD, "C09: DATETIMES = the four reference dateTimes of 3.2.6.2 (UTC)");
}
