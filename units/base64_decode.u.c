//@ unit base64_decode
//@ props C09 C01
//@ kind W
//@ def quick NB=8
//@ def all CONFORM=Conf_Schema
//@ def thorough NB=13
//@ cbmc quick --unwind 10 --unwinding-assertions
//@ cbmc thorough --unwind 15 --unwinding-assertions
//@ entry h_base64_decode
//@ note W: complete for every NUL-terminated byte string of length 1..NB (quick 8 = two quartets, or one quartet with white space; thorough 13) in conformance mode Conf_Schema (what the base64Binary validator uses; Conf_RFC2045 is unit base64_decode_rfc); all loops (incl. cbmc's strlen model) fully unwound, unwinding assertions on. The empty string is handled by the callers (Base64BinaryDatatypeValidator treats it as the valid empty value).
//@ note allocation model: verif_alloc(n) returns a fresh object of exactly n bytes and never fails (getExternalMemory / operator new / MemoryManager::allocate are mapped to it by sub rules); deallocation and the ArrayJanitor are dropped (leaks are not in scope), so every access is checked against the exact allocation size
//@ note XMLChar1_0::isWhitespace (Conf_RFC2045 only) is replaced by the XML 1.0 production S
//@ note specification: XML Schema Part 2 (2nd ed.) 3.2.16.1 base64Binary lexical space incl. the B16 / B04 classes for the last character before one / two '=' (2 resp. 4 unused bits must be zero), values per RFC 2045 6.8 (spec/xsd_lexical.h)
#define VERIF_DEFINE_GHOSTS
#include <stdlib.h>
#include "verif_prelude.h"
#include "xsd_lexical.h"
//@ enum src/xercesc/util/Base64.hpp Conformance - scope=Base64
//@ table src/xercesc/util/Base64.cpp BASELENGTH asenum
//@ table src/xercesc/util/Base64.cpp FOURBYTE asenum
//@ table src/xercesc/util/Base64.cpp base64Inverse
//@ table src/xercesc/util/Base64.cpp base64Padding
typedef int Conformance;

static void *verif_alloc(size_t n) { void *p = malloc(n); __CPROVER_assume(p != 0); return p; }

/*@extract src/xercesc/util/Base64.cpp Base64::isData
constref-byvalue
@*/
/*@extract src/xercesc/util/Base64.hpp Base64::isPad
constref-byvalue
@*/
/*@extract src/xercesc/util/Base64.hpp Base64::set1stOctet
constref-byvalue
@*/
/*@extract src/xercesc/util/Base64.hpp Base64::set2ndOctet
constref-byvalue
@*/
/*@extract src/xercesc/util/Base64.hpp Base64::set3rdOctet
constref-byvalue
@*/
/*@extract src/xercesc/util/Base64.cpp Base64::decode
params XMLByte*& canRepData
call isData => Base64_isData
call isPad => Base64_isPad
call set1stOctet => Base64_set1stOctet
call set2ndOctet => Base64_set2ndOctet
call set3rdOctet => Base64_set3rdOctet
sub XMLString::stringLen\( \(const char\*\)inputData \) => strlen((const char*)inputData)
sub getExternalMemory\(memMgr, => verif_alloc(
sub returnExternalMemory\(memMgr, decodedData\); =>
sub ArrayJanitor<XMLByte> jan\([^;]*\); =>
sub jan\.release\(\); =>
sub XMLChar1_0::isWhitespace => SPEC_IS_XMLWS
@*/

struct { XMLByte a[NB + 1]; } IN;

void h_base64_decode(void)
{
  XMLSize_t n, declen = 12345;
  int conform;
  XMLByte *can = 0;
  VERIF_INPUT(IN); VERIF_INPUT(n);
  conform = CONFORM;
  VERIF_ASSUME(n >= 1 && n <= NB);
  XMLByte *s = IN.a + (NB - n);
  VERIF_ASSUME(s[n] == 0);
  for (XMLSize_t i = 0; i < n; i++) VERIF_ASSUME(s[i] != 0);
  verif_thrown = 0;
  XMLByte *r = Base64_decode(s, &declen, &can, 0, conform);
  VERIF_CANARY("after call");

  uint16_t w[NB + 1], cref[NB + 1]; uint8_t oref[NB + 1]; size_t on, cn;
  for (XMLSize_t i = 0; i < n; i++) w[i] = s[i];
  int ok = spec_base64_decode(w, n, conform == Conf_Schema, oref, &on, cref, &cn);
  __CPROVER_assert(!verif_thrown, "C01: Base64::decode reports errors by a null result, not by exceptions");
  if (ok && cn == 0) {
    /* white space only (possible in RFC 2045 mode): zero octets; like the empty string it is reported by a null result and
       left to the callers (Base64BinaryDatatypeValidator / getLength treat "no data" as the empty value) */
    __CPROVER_assert(r == 0, "C09: Base64::decode: a literal without any base64 character yields null (empty value is the caller's business)");
  } else if (!ok) {
    __CPROVER_assert(r == 0, "C09: Base64::decode rejects everything outside the base64Binary lexical space (white-space rules, quartets, padding forms, zero pad bits: B16 before '=', B04 before '==')");
  } else {
    __CPROVER_assert(r != 0, "C09: Base64::decode accepts the base64Binary lexical space");
    if (r != 0) {
      __CPROVER_assert(declen == on, "C09: Base64::decode: number of octets");
      for (size_t k = 0; k < on; k++) __CPROVER_assert(r[k] == oref[k], "C09: Base64::decode: octets per RFC 2045");
      __CPROVER_assert(r[on] == 0, "C01: Base64::decode: result is terminated");
      __CPROVER_assert(can != 0, "C09: Base64::decode hands out the canonical form");
      if (can != 0) {
        for (size_t k = 0; k < cn; k++) __CPROVER_assert(can[k] == cref[k], "C09: Base64::decode: canonical form = the literal without white space");
        __CPROVER_assert(can[cn] == 0, "C01: Base64::decode: canonical form is terminated");
      }
    }
  }
}
