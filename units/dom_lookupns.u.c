//@ unit dom_lookupns
//@ props C06 C01
//@ kind W
//@ def quick NEL=3 NATTR=2
//@ def thorough NEL=3 NATTR=2
//@ cbmc all --unwind 5 --unwindset DOMNodeImpl_getElementAncestor.0:4,DOMNodeImpl_lookupNamespaceURI.0:2,DOMNodeImpl_lookupPrefix2.0:2,ND_getAttributeNodeNS.0:3,spec_lookupNamespaceURI.0:3,spec_lookupNamespaceURI.1:4,spec_lookupPrefix.0:3,spec_lookupPrefix.1:4,spec_isDefaultNamespace.0:3,spec_isDefaultNamespace.1:4,run_x.0:9,run_x.1:12 --unwinding-assertions
//@ entry h_lookupns
//@ note W: complete for harness trees document -> chain of <= NEL elements with <= NATTR attributes each, every namespace / prefix / local name / value over 7 string ids, started at the document, any element, any attribute, or a further node of any other type hung under the document, an element, an entity reference below the root element (an ancestor that is no element is skipped), an attribute or nothing; every call is made with concrete links and node types (only names, namespaces, values, depth and attribute counts are symbolic) so that the node-type switches are decided during symbolic execution; recursion (ancestor->lookupXxx) and the attribute loops fully unwound
//@ note stubs (contracts/dom_tree.inc): getParentNode, getNodeType, getNamespaceURI, getPrefix, getLocalName, getNodeName, getNodeValue, hasAttributes, getAttributes/getLength/item, getDocumentElement, getAttributeNodeNS are accessors of the harness tree; strings are ids (equal iff same id; null and "" equal for XMLString::equals); getContainingNode() is the node itself, fOwnerNode its owner field; the virtual lookupXxx of every node class forwards to DOMNodeImpl (checked by reading dom/impl/*.cpp), so virtual calls become calls of the extracted functions
//@ note assumptions on the tree (what DOM Level 2 createElementNS / setAttributeNS guarantee): namespace ids are null or non-empty; prefixes and local names are never ""; an attribute in the xmlns namespace is either `xmlns` (no prefix, local name xmlns) or `xmlns:p` (prefix xmlns, local name p not xmlns); attributes of one element have distinct (namespace, local name); xmlns:p="" (prefix un-declaration, illegal in Namespaces 1.0) does not occur
//@ note spec: DOM Level 3 Core, Appendix B.2 (lookupNamespacePrefix), B.3 (isDefaultNamespace), B.4 (lookupNamespaceURI) written as loops over the chain of ancestor elements
#define VERIF_DEFINE_GHOSTS
#include "verif_prelude.h"
//@ enum src/xercesc/dom/DOMNode.hpp NodeType DOMNode_ scope=DOMNode
//@ include dom_tree.inc

static const XMLCh* DOMNodeImpl_lookupNamespaceURI(struct DOMNode* self, const XMLCh* specifiedPrefix);
static const XMLCh* DOMNodeImpl_lookupPrefix(struct DOMNode* self, const XMLCh* namespaceURI);
static const XMLCh* DOMNodeImpl_lookupPrefix2(struct DOMNode* self, const XMLCh* const namespaceURI, DOMElement *originalElement);
static bool DOMNodeImpl_isDefaultNamespace(struct DOMNode* self, const XMLCh* namespaceURI);

/*@extract src/xercesc/dom/impl/DOMNodeImpl.cpp DOMNodeImpl::getElementAncestor
static
sub \b(parent|currentNode)->(get\w+)\(\) => ND_\2(\1)
@*/

/*@extract src/xercesc/dom/impl/DOMNodeImpl.cpp DOMNodeImpl::lookupNamespaceURI
static
selfparam DOMNode
call getElementAncestor => DOMNodeImpl_getElementAncestor
sub getContainingNode\(\) => self
sub \(\(DOMDocument\*\)thisNode\)->getDocumentElement\(\)->(\w+)\( => DOMNodeImpl_\1(ND_getDocumentElement(thisNode), 
sub fOwnerNode->getNodeType\(\) => ND_getNodeType(self->owner)
sub fOwnerNode->(\w+)\( => DOMNodeImpl_\1(self->owner, 
sub ancestor->(\w+)\( => DOMNodeImpl_\1(ancestor, 
sub \b(thisNode|attr)->(get\w+|hasAttributes)\(\) => ND_\2(\1)
sub nodeMap->getLength\(\) => NM_getLength(nodeMap)
sub nodeMap->item\(i\) => NM_item(nodeMap, i)
sub XMLString::equals\( => ST_equals(
@*/

/*@extract src/xercesc/dom/impl/DOMNodeImpl.cpp DOMNodeImpl::lookupPrefix
pick 2
as DOMNodeImpl_lookupPrefix2
static
selfparam DOMNode
call getElementAncestor => DOMNodeImpl_getElementAncestor
sub getContainingNode\(\) => self
sub castToNodeImpl\(ancestor\)->lookupPrefix\( => DOMNodeImpl_lookupPrefix2(ancestor, 
sub originalElement->lookupNamespaceURI\( => DOMNodeImpl_lookupNamespaceURI(originalElement, 
sub \b(thisNode|attr)->(get\w+|hasAttributes)\(\) => ND_\2(\1)
sub nodeMap->getLength\(\) => NM_getLength(nodeMap)
sub nodeMap->item\(i\) => NM_item(nodeMap, i)
sub XMLString::equals\( => ST_equals(
@*/

/*@extract src/xercesc/dom/impl/DOMNodeImpl.cpp DOMNodeImpl::lookupPrefix
pick 1
static
selfparam DOMNode
call getElementAncestor => DOMNodeImpl_getElementAncestor
sub getContainingNode\(\) => self
sub return lookupPrefix\(namespaceURI, \(DOMElement\*\)thisNode\); => return DOMNodeImpl_lookupPrefix2(self, namespaceURI, (DOMElement*)thisNode);
sub \(\(DOMDocument\*\)thisNode\)->getDocumentElement\(\)->(\w+)\( => DOMNodeImpl_\1(ND_getDocumentElement(thisNode), 
sub fOwnerNode->getNodeType\(\) => ND_getNodeType(self->owner)
sub fOwnerNode->(\w+)\( => DOMNodeImpl_\1(self->owner, 
sub ancestor->(\w+)\( => DOMNodeImpl_\1(ancestor, 
sub \bthisNode->(get\w+)\(\) => ND_\1(thisNode)
@*/

/*@extract src/xercesc/dom/impl/DOMNodeImpl.cpp DOMNodeImpl::isDefaultNamespace
static
selfparam DOMNode
call getElementAncestor => DOMNodeImpl_getElementAncestor
sub getContainingNode\(\) => self
sub \(\(DOMDocument\*\)thisNode\)->getDocumentElement\(\)->(\w+)\( => DOMNodeImpl_\1(ND_getDocumentElement(thisNode), 
sub fOwnerNode->getNodeType\(\) => ND_getNodeType(self->owner)
sub fOwnerNode->(\w+)\( => DOMNodeImpl_\1(self->owner, 
sub ancestor->(\w+)\( => DOMNodeImpl_\1(ancestor, 
sub elem->getAttributeNodeNS\( => ND_getAttributeNodeNS(elem, 
sub \b(thisNode|attr)->(get\w+|hasAttributes)\(\) => ND_\2(\1)
sub XMLString::equals\( => ST_equals(
@*/

/* ---- the harness tree ---- */
struct { DOMNode doc, el[NEL], at[NEL][NATTR], ref, x; } T;
XMLSize_t DEPTH;

/* ---- spec: DOM Level 3 Core Appendix B over the chain el[k], el[k-1], .., el[0] (ids; 0 = null) ---- */
static int eq_ne(unsigned char a, unsigned char b) { return a == b || ((a == 0 || a == ID_EMPTY) && (b == 0 || b == ID_EMPTY)); }
/* B.4 lookupNamespaceURI(prefix) at element k */
static unsigned char spec_lookupNamespaceURI(int k, unsigned char pfx)
{
  unsigned char r = 0; int done = 0;
  for (int e = NEL - 1; e >= 0; e--) if (e <= k && !done) {
    const DOMNode *el = &T.el[e];
    if (el->ns != 0 && el->prefix == pfx) { r = el->ns; done = 1; }
    for (int j = 0; j < NATTR; j++) if (j < el->nattr && !done) {
      const DOMNode *a = &T.at[e][j];
      if (a->ns == ID_XMLNS_URI) {
        if (a->prefix == ID_XMLNS && a->local == pfx) { r = (a->value == ID_EMPTY) ? 0 : a->value; done = 1; }   /* "if Attr's value is not empty return it, else unknown (null)" */
        else if (a->local == ID_XMLNS && pfx == 0) { r = (a->value == ID_EMPTY) ? 0 : a->value; done = 1; }
      }
    }
  }
  return r;
}
/* B.2 lookupNamespacePrefix(namespaceURI, originalElement) started at the original element k */
static unsigned char spec_lookupPrefix(int k, unsigned char uri)
{
  unsigned char r = 0; int done = 0;
  if (uri == 0 || uri == ID_EMPTY) return 0;            /* "if namespaceURI has no value (null or empty) return null" */
  for (int e = NEL - 1; e >= 0; e--) if (e <= k && !done) {
    const DOMNode *el = &T.el[e];
    if (el->ns != 0 && el->ns == uri && el->prefix != 0 && spec_lookupNamespaceURI(k, el->prefix) == uri) { r = el->prefix; done = 1; }
    for (int j = 0; j < NATTR; j++) if (j < el->nattr && !done) {
      const DOMNode *a = &T.at[e][j];
      if (a->ns == ID_XMLNS_URI && a->prefix == ID_XMLNS && a->value == uri && spec_lookupNamespaceURI(k, a->local) == uri) { r = a->local; done = 1; }
    }
  }
  return r;
}
/* B.3 isDefaultNamespace(namespaceURI) at element k */
static int spec_isDefaultNamespace(int k, unsigned char uri)
{
  int r = 0, done = 0;
  for (int e = NEL - 1; e >= 0; e--) if (e <= k && !done) {
    const DOMNode *el = &T.el[e];
    if (el->prefix == 0) { r = eq_ne(el->ns, uri); done = 1; }
    for (int j = 0; j < NATTR; j++) if (j < el->nattr && !done) {
      const DOMNode *a = &T.at[e][j];
      if (a->ns == ID_XMLNS_URI && a->local == ID_XMLNS) { r = eq_ne(a->value, uri); done = 1; }
    }
  }
  return r;
}

static void run(DOMNode *node, int k, int which, unsigned char arg)
{
  /* k: the element whose scope answers; -1: no element in reach or a node type for which the answer is "unknown" */
  if (k >= 0) VERIF_ASSUME((XMLSize_t)k < DEPTH);
  if (which == 0) {
    const XMLCh *r = DOMNodeImpl_lookupNamespaceURI(node, STR_PTR(arg));
    VERIF_CANARY("after lookupNamespaceURI");
    unsigned char exp = (k >= 0) ? spec_lookupNamespaceURI(k, arg) : 0;
    if (k == 2 && exp != 0) VERIF_CANARY("a binding found from the third element is reachable");
    __CPROVER_assert(ST_equals(r, STR_PTR(exp)), "C06: lookupNamespaceURI answers as DOM Level 3 Core B.4 (nearest element / declaration on the way up; null when unknown), null and empty taken alike");
    __CPROVER_assert(exp != 0 || r == 0, "C06: lookupNamespaceURI returns null (not an empty string) when the prefix is un-declared or unknown (B.4: 'return unknown (null)')");
  } else if (which == 1) {
    const XMLCh *r = DOMNodeImpl_lookupPrefix(node, STR_PTR(arg));
    VERIF_CANARY("after lookupPrefix");
    unsigned char exp = (k >= 0) ? spec_lookupPrefix(k, arg) : 0;
    if (k == 2 && exp != 0) VERIF_CANARY("a prefix found from the third element is reachable");
    __CPROVER_assert(r == STR_PTR(exp), "C06: lookupPrefix answers as DOM Level 3 Core B.2 (a prefix is returned only if, looked up from the ORIGINAL element, it is still bound to that namespace)");
  } else {
    bool r = DOMNodeImpl_isDefaultNamespace(node, STR_PTR(arg));
    VERIF_CANARY("after isDefaultNamespace");
    int exp = (k >= 0) ? spec_isDefaultNamespace(k, arg) : 0;
    __CPROVER_assert(r == (exp != 0), "C06: isDefaultNamespace answers as DOM Level 3 Core B.3");
  }
}
/* a further node of any other type, hung under nothing, the document, the entity reference, an attribute, or an element.
 * Every (type, parent) combination is a call of its own with CONCRETE links, so that the node-type switches of the algorithms are
 * decided during symbolic execution (one recursion chain per call instead of a tree of infeasible ones). */
static void run_x(int xt, int xp, int which, unsigned char arg)
{
  for (int t = DOMNode_TEXT_NODE; t <= DOMNode_NOTATION_NODE; t++) if (t != DOMNode_DOCUMENT_NODE && xt == t)
    for (int p = 0; p < NEL + 4; p++) if (xp == p) {
      int xel = -1;
      T.x.type = (short)t; T.x.nattr = 0; T.x.owner = &T.doc; T.x.docElem = 0;
      if (p == 0) T.x.parent = 0; else if (p == 1) T.x.parent = &T.doc; else if (p == 2) { T.x.parent = &T.ref; VERIF_ASSUME(DEPTH >= 1); xel = 0; }
      else if (p == 3) T.x.parent = &T.at[0][0];
      else { VERIF_ASSUME((XMLSize_t)(p - 4) < DEPTH); T.x.parent = &T.el[p - 4]; xel = p - 4; }
      int unknown = (t == DOMNode_ENTITY_NODE || t == DOMNode_NOTATION_NODE || t == DOMNode_DOCUMENT_FRAGMENT_NODE || t == DOMNode_DOCUMENT_TYPE_NODE);
      run(&T.x, unknown ? -1 : xel, which, arg);
    }
}

void h_lookupns(void)
{
  unsigned char arg; int start, which, xt, xp;
  VERIF_INPUT(T); VERIF_INPUT(DEPTH); VERIF_INPUT(arg); VERIF_INPUT(start); VERIF_INPUT(which); VERIF_INPUT(xt); VERIF_INPUT(xp);
  VERIF_ASSUME(DEPTH <= NEL && arg < NSTR);
  /* build the links; the string fields stay arbitrary within the DOM Level 2 constraints */
  T.doc.type = DOMNode_DOCUMENT_NODE; T.doc.parent = 0; T.doc.owner = 0; T.doc.docElem = &T.el[0]; DOC_EMPTY = (DEPTH == 0); T.doc.nattr = 0;
  T.ref.type = DOMNode_ENTITY_REFERENCE_NODE; T.ref.parent = &T.el[0]; T.ref.nattr = 0; T.ref.owner = &T.doc; T.ref.docElem = 0;
  for (int e = 0; e < NEL; e++) {
    DOMNode *el = &T.el[e];
    el->type = DOMNode_ELEMENT_NODE; el->owner = &T.doc; el->docElem = 0;
    el->parent = (e == 0) ? &T.doc : &T.el[e - 1];
    VERIF_ASSUME(el->nattr <= NATTR && el->ns < NSTR && el->ns != ID_EMPTY && el->prefix < NSTR && el->prefix != ID_EMPTY);
    VERIF_ASSUME(el->prefix == 0 || el->ns != 0);          /* NAMESPACE_ERR otherwise (createElementNS) */
    for (int j = 0; j < NATTR; j++) {
      DOMNode *a = &T.at[e][j]; el->attrs[j] = a;
      a->type = DOMNode_ATTRIBUTE_NODE; a->parent = 0; a->owner = el; a->docElem = 0; a->nattr = 0;
      VERIF_ASSUME(a->ns < NSTR && a->ns != ID_EMPTY && a->prefix < NSTR && a->prefix != ID_EMPTY && a->local >= ID_XMLNS && a->local < NSTR && a->name >= ID_XMLNS && a->name < NSTR && a->value >= ID_EMPTY && a->value < NSTR);
      VERIF_ASSUME(a->prefix == 0 || a->ns != 0);
      /* an attribute is in the xmlns namespace iff it is `xmlns` or `xmlns:p` (Namespaces in XML; DOM createAttributeNS NAMESPACE_ERR) */
      if (a->ns == ID_XMLNS_URI) VERIF_ASSUME((a->prefix == 0 && a->local == ID_XMLNS && a->name == ID_XMLNS) || (a->prefix == ID_XMLNS && a->local != ID_XMLNS && a->name != ID_XMLNS && a->value != ID_EMPTY));
      else VERIF_ASSUME(a->prefix != ID_XMLNS && !(a->prefix == 0 && a->local == ID_XMLNS && a->ns != 0));
      for (int i = 0; i < j; i++) VERIF_ASSUME(!(T.at[e][i].ns == a->ns && T.at[e][i].local == a->local));
    }
  }
  verif_thrown = 0;
  VERIF_ASSUME(which >= 0 && which <= 2);
  VERIF_ASSUME(start >= 0 && start <= NEL + NEL * NATTR + 1);
  /* one call per start node, each with a concrete node */
  if (start == 0) run(&T.doc, DEPTH ? 0 : -1, which, arg);
  for (int e = 0; e < NEL; e++) if (start == 1 + e) { VERIF_ASSUME((XMLSize_t)e < DEPTH); run(&T.el[e], e, which, arg); }
  for (int e = 0; e < NEL; e++) for (int j = 0; j < NATTR; j++) if (start == 1 + NEL + e * NATTR + j) { VERIF_ASSUME((XMLSize_t)e < DEPTH && j < T.el[e].nattr); run(&T.at[e][j], e, which, arg); }
  if (start == NEL + NEL * NATTR + 1) run_x(xt, xp, which, arg);
}
