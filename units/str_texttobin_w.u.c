//@ unit str_texttobin_w
//@ props C01
//@ kind W
//@ def quick STRN=6
//@ def thorough STRN=11 DIGITS_ONLY=1
//@ cbmc all --unwind 14 --unwinding-assertions
//@ timeout quick=300 thorough=3000
//@ entry h_str_texttobin
//@ note W: complete for every string of length < STRN (all 16-bit units; null allowed), END-aligned at its NUL; loops fully unwound, unwinding assertions on; the thorough tier instead takes every string of up to 10 DECIMAL DIGITS (no other characters: the general 16-bit domain at this length does not finish), which covers the unsigned int boundary 4294967295 / 4294967296
//@ note spec = XMLString.hpp: "leading and trailing whitespace is legal and will be ignored but the remainder must be all decimal digits"; the value is the value of the digit string; false for an empty/null string, a non-digit, or a value that does not fit unsigned int; one leading '+' (and the extra isspace characters VT/FF of strtoul) are tolerated by the implementation and allowed by this spec (xs:nonNegativeInteger allows the sign)
//@ note stubs (trusted): replicate = copy into a harness array; ArrayJanitor lines dropped; transcode(XMLCh*) = narrowing of ASCII, '?' for everything else; strtoul = C11 7.22.1.4 base 10 model (skips isspace, optional sign, ERANGE above ULONG_MAX) on LP64 (unsigned long = 64 bits); trim and indexOf are the real bodies with XMLChar1_0::isWhitespace = production [3] S
#define VERIF_DEFINE_GHOSTS
#include "verif_prelude.h"
#define WS10(c) ((c) == 0x20 || (c) == 0x9 || (c) == 0xA || (c) == 0xD)
int VERIF_errno;
#define errno VERIF_errno
#define ERANGE 34
struct { XMLCh a[STRN]; } REP; struct { char a[STRN]; } NARROW;
static XMLCh *STUB_replicate(const XMLCh *s) { XMLSize_t i = 0; while (i + 1 < STRN && s[i] != 0) { REP.a[i] = s[i]; i++; } REP.a[i] = 0; return REP.a; }
static char *STUB_transcode(const XMLCh *s) { XMLSize_t i = 0; while (i + 1 < STRN && s[i] != 0) { NARROW.a[i] = (s[i] < 0x80) ? (char)s[i] : '?'; i++; } NARROW.a[i] = 0; return NARROW.a; }
static unsigned long SPEC_strtoul10(const char *nptr, char **endptr)
{
  const char *p = nptr; int neg = 0, any = 0, over = 0; unsigned long v = 0;
  while (*p == ' ' || (*p >= '\t' && *p <= '\r')) p++;
  if (*p == '+' || *p == '-') { neg = (*p == '-'); p++; }
  while (*p >= '0' && *p <= '9') {
    unsigned d = (unsigned)(*p - '0');
    if (v > (~0ul - d) / 10) over = 1; else v = v * 10 + d;
    any = 1; p++;
  }
  *endptr = (char *)(any ? p : nptr);
  if (over) { errno = ERANGE; return ~0ul; }
  return neg ? 0ul - v : v;
}

/*@extract src/xercesc/util/XMLString.hpp XMLString::stringLen
params const XMLCh* const src
static
@*/
/*@extract src/xercesc/util/XMLString.cpp XMLString::trim
params XMLCh* const toTrim
static
call stringLen => XMLString_stringLen
sub XMLChar1_0::isWhitespace\( => WS10(
@*/
/*@extract src/xercesc/util/XMLString.cpp XMLString::indexOf
as XMLString_indexOf4
params const XMLCh* const toSearch , const XMLCh ch , const XMLSize_t fromIndex
static
call stringLen => XMLString_stringLen
@*/
/*@extract src/xercesc/util/XMLString.cpp XMLString::textToBin
ret false
sub XMLString::replicate\(toConvert, manager\) => STUB_replicate(toConvert)
sub XMLString::transcode\(trimmedStr, manager\) => STUB_transcode(trimmedStr)
sub ArrayJanitor<XMLCh> jan1\(trimmedStr, manager\); =>
sub ArrayJanitor<char> jan2\(nptr, manager\); =>
sub \bstrtoul\(nptr, &endptr, 10\) => SPEC_strtoul10(nptr, &endptr)
sub XMLString::indexOf\( => XMLString_indexOf4(
call XMLString::trim => XMLString_trim
call XMLString::stringLen => XMLString_stringLen
throws XMLString_indexOf4
@*/

struct { XMLCh a[STRN]; } S1;
void h_str_texttobin(void)
{
  XMLSize_t n; _Bool isnull; unsigned int out = 77;
  VERIF_INPUT(S1); VERIF_INPUT(n); VERIF_INPUT(isnull);
  VERIF_ASSUME(n >= 1 && n <= STRN);
  const XMLCh *s = S1.a + (STRN - n);
  VERIF_ASSUME(s[n - 1] == 0);
  for (XMLSize_t k = 0; k + 1 < n; k++) VERIF_ASSUME(s[k] != 0);
#ifdef DIGITS_ONLY
  for (XMLSize_t k = 0; k + 1 < n; k++) VERIF_ASSUME(s[k] >= '0' && s[k] <= '9');
#endif
  verif_thrown = 0;

  bool ok = XMLString_textToBin(isnull ? (const XMLCh *)0 : s, &out, (MemoryManager *)0);
  VERIF_CANARY("after textToBin");

  /* spec: [lo, hi) = the text without XML whitespace; strtoul additionally skips its own isspace set (adds VT, FF) and one sign;
     '-' is rejected by the code before strtoul, '+' is accepted (xs:nonNegativeInteger allows it) */
  XMLSize_t len = n - 1, lo = 0, hi = len; int digits = 1; uint64_t v = 0; int fits = 1;
  while (lo < len && WS10(s[lo])) lo++;
  while (hi > lo && WS10(s[hi - 1])) hi--;
  XMLSize_t d0 = lo;
  while (d0 < hi && (s[d0] == 0xB || s[d0] == 0xC || WS10(s[d0]))) d0++;
  if (d0 < hi && s[d0] == '+') d0++;
  for (XMLSize_t k = d0; k < hi; k++) {
    if (s[k] < '0' || s[k] > '9') digits = 0;
    else { v = v * 10 + (uint64_t)(s[k] - '0'); if (v > 0xFFFFFFFFull) fits = 0; }
  }
  int wellformed = !isnull && hi > d0 && digits;
  __CPROVER_assert(!verif_thrown, "C01: textToBin does not throw");
  __CPROVER_assert(!ok || wellformed, "C01: textToBin accepts only [whitespace] ['+'] decimal digits");
  if (wellformed && fits) __CPROVER_assert(ok && out == (unsigned int)v, "C01: textToBin accepts every decimal that fits unsigned int and delivers its value");
  if (wellformed && !fits) __CPROVER_assert(!ok, "C01: textToBin rejects a value that does not fit unsigned int (overflow)");
  if (ok && hi - d0 > 2) VERIF_CANARY("textToBin: multi-digit value reachable");
}
