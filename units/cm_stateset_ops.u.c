//@ unit cm_stateset_ops
//@ props C07 C08 C01
//@ kind W
//@ def all NARR=3 CMSTATE_BITFIELD_CHUNK=64 CMSTATE_BITFIELD_INT32_SIZE=2
//@ cbmc all --unwind 6 --unwinding-assertions
//@ entry h_cm_stateset_ops
//@ note W: CMStateSet (the position sets of the followpos construction) as a bit set: setBit / getBit / zeroBits / isEmpty / operator|= / operator== on `this` = harness object A and operand B, both representations: cached (fBitCount <= 128: four words) and dynamic (NARR on-demand chunks of CMSTATE_BITFIELD_INT32_SIZE words; fBitCount in ((NARR-1)*chunk, NARR*chunk]), loops fully unwound; the one-object methods are also covered (C01) by unit cm_stateset
//@ note abstraction function written from the member documentation: bit i of a cached set is bit i%32 of fBits[i/32]; of a dynamic set bit i%32 of word (i%1024)/32 of chunk fBitArray[i/1024], an unallocated chunk (null) holds no bits
//@ note R13-style rebinding: the chunk size CMSTATE_BITFIELD_CHUNK (1024 bits in /repo) / CMSTATE_BITFIELD_INT32_SIZE (1024/32) is rebound to 64 bits / 2 words by -D (the copied #defines are wrapped in #ifndef); the code is assumed parametric in the chunk size (it uses the two names and the word size 32 only); with the real size the fully symbolic |= does not finish in the budget
//@ note the portable branch is verified: the #ifdef XERCES_HAVE_SSE2_INTRINSIC branches (taken in the pinned build when the CPU has SSE2) are not in the C subset
//@ note chunk allocation (MemoryManager::allocate / deallocate) hands out / takes back separate harness objects of exactly one chunk; references `XMLInt32*& x = slot` that are only read become pointer copies
//@ note getBitCountInRange is NOT covered: it has no documented meaning (word-granular in the cached form, chunk-index-granular in the dynamic form), its only caller (buildDFA) uses it as a cost heuristic, and its 32-bit inner loops over a symbolic start word did not finish in the budget (185 s for memory safety alone)
//@ note NOT in scope: constructors / destructor / operator= / hashCode / getBitCountInRange, CMStateSetEnumerator, buildDFA / followpos construction (the users of this class)
#define VERIF_DEFINE_GHOSTS
#include "verif_prelude.h"
//@ define src/xercesc/validators/common/CMStateSet.hpp CMSTATE_CACHED_INT32_SIZE
//@ define src/xercesc/validators/common/CMStateSet.hpp CMSTATE_BITFIELD_CHUNK
//@ define src/xercesc/validators/common/CMStateSet.hpp CMSTATE_BITFIELD_INT32_SIZE
//@ struct src/xercesc/validators/common/CMStateSet.hpp CMDynamicBuffer self=none
//@ struct src/xercesc/validators/common/CMStateSet.hpp CMStateSet self=none structs=CMDynamicBuffer
typedef struct CMStateSet CMStateSet; typedef struct CMDynamicBuffer CMDynamicBuffer;

/* this = A, the operand = B; their dynamic buffers, chunk-pointer arrays and chunks are separate harness objects */
struct CMStateSet A, B; struct CMDynamicBuffer DA, DB;
struct { XMLInt32 *a[NARR]; } ARRA, ARRB;
struct CHK { XMLInt32 w[CMSTATE_BITFIELD_INT32_SIZE]; };
struct CHK CA0, CA1, CA2, CB0, CB1, CB2, CN0, CN1, CN2;       /* CN<k>: the chunk handed out by allocate for slot k */
_Static_assert(NARR == 3, "three chunk objects per set");
_Static_assert((NARR - 1) * CMSTATE_BITFIELD_CHUNK >= CMSTATE_CACHED_INT32_SIZE * 32 && CMSTATE_BITFIELD_INT32_SIZE * 32 == CMSTATE_BITFIELD_CHUNK, "sizes");
int NALLOC, NFREE, ALLOC_BAD, FREE_BAD;
static void* CH_alloc(XMLSize_t slot, XMLSize_t n) { if (n != sizeof(struct CHK) || slot >= NARR) ALLOC_BAD = 1; NALLOC++; return slot == 0 ? (void*)CN0.w : slot == 1 ? (void*)CN1.w : (void*)CN2.w; }
static void CH_free(void *p) { if (!p) FREE_BAD = 1; NFREE++; }

/*@extract src/xercesc/validators/common/CMStateSet.hpp CMStateSet::allocateChunk
inclass
sub (?<![\w.>])fDynamicBuffer\b => A.fDynamicBuffer
sub A\.fDynamicBuffer->fMemoryManager->allocate\( => CH_alloc(index, 
@*/
/*@extract src/xercesc/validators/common/CMStateSet.hpp CMStateSet::deallocateChunk
inclass
sub (?<![\w.>])fDynamicBuffer\b => A.fDynamicBuffer
sub A\.fDynamicBuffer->fMemoryManager->deallocate\( => CH_free(
@*/
/*@extract src/xercesc/validators/common/CMStateSet.hpp CMStateSet::setBit
inclass
call allocateChunk => CMStateSet_allocateChunk
sub (?<![\w.>])(fBits|fBitCount|fDynamicBuffer)\b => A.\1
@*/
/*@extract src/xercesc/validators/common/CMStateSet.hpp CMStateSet::getBit
inclass
ret false
sub (?<![\w.>])(fBits|fBitCount|fDynamicBuffer)\b => A.\1
@*/
/*@extract src/xercesc/validators/common/CMStateSet.hpp CMStateSet::zeroBits
inclass
call deallocateChunk => CMStateSet_deallocateChunk
sub (?<![\w.>])(fBits|fBitCount|fDynamicBuffer)\b => A.\1
@*/
/*@extract src/xercesc/validators/common/CMStateSet.hpp CMStateSet::isEmpty
inclass
sub (?<![\w.>])(fBits|fBitCount|fDynamicBuffer)\b => A.\1
@*/
/*@extract src/xercesc/validators/common/CMStateSet.hpp CMStateSet::operator|=
as CMStateSet_orAssign
inclass
call allocateChunk => CMStateSet_allocateChunk
sub XMLInt32 \*& other = => XMLInt32 * other =
sub XMLInt32\*& mine = => XMLInt32* mine =
sub \bsetToOr\. => B.
sub (?<![\w.>])(fBits|fBitCount|fDynamicBuffer)\b => A.\1
@*/
/*@extract src/xercesc/validators/common/CMStateSet.hpp CMStateSet::operator==
as CMStateSet_equals
inclass
sub XMLInt32 \*& other = => XMLInt32 * other =
sub \*& mine = => * mine =
sub \bsetToCompare\. => B.
sub (?<![\w.>])(fBits|fBitCount|fDynamicBuffer)\b => A.\1
@*/

/* abstraction function: is bit i in the set? */
static int abs_bit(const struct CMStateSet *s, XMLSize_t i)
{
  if (!s->fDynamicBuffer) return (((XMLUInt32)s->fBits[i / 32]) >> (i % 32)) & 1;
  const XMLInt32 *c = s->fDynamicBuffer->fBitArray[i / CMSTATE_BITFIELD_CHUNK];
  return c ? (((XMLUInt32)c[(i % CMSTATE_BITFIELD_CHUNK) / 32]) >> (i % 32)) & 1 : 0;
}
static int abs_empty(const struct CMStateSet *s)
{
  XMLUInt32 any = 0;
  if (!s->fDynamicBuffer) { for (int k = 0; k < CMSTATE_CACHED_INT32_SIZE; k++) any |= (XMLUInt32)s->fBits[k]; return any == 0; }
  for (XMLSize_t a = 0; a < NARR; a++) if (a < s->fDynamicBuffer->fArraySize && s->fDynamicBuffer->fBitArray[a])
    for (int k = 0; k < CMSTATE_BITFIELD_INT32_SIZE; k++) any |= (XMLUInt32)s->fDynamicBuffer->fBitArray[a][k];
  return any == 0;
}

/* representation invariant (from the constructor and the methods): cached form iff fBitCount <= 128; dynamic form: fArraySize =
   ceil(fBitCount / chunk) slots, each null or an own chunk; an allocated chunk is never all-zero (bits are only ever set, zeroBits and
   operator= release chunks) -- which is what makes operator== extensional */
static int chk_nonzero(const struct CHK *c) { XMLUInt32 any = 0; for (int k = 0; k < CMSTATE_BITFIELD_INT32_SIZE; k++) any |= (XMLUInt32)c->w[k]; return any != 0; }
static void mk_set(struct CMStateSet *s, struct CMDynamicBuffer *d, XMLInt32 **arr, struct CHK *c0, struct CHK *c1, struct CHK *c2, XMLSize_t bits, _Bool h0, _Bool h1, _Bool h2)
{
  s->fBitCount = bits;
  if (bits <= CMSTATE_CACHED_INT32_SIZE * 32) { s->fDynamicBuffer = 0; return; }
  s->fDynamicBuffer = d; d->fArraySize = NARR; d->fBitArray = arr; d->fMemoryManager = 0;
  arr[0] = h0 ? c0->w : (XMLInt32*)0; arr[1] = h1 ? c1->w : (XMLInt32*)0; arr[2] = h2 ? c2->w : (XMLInt32*)0;
  __CPROVER_assume((!h0 || chk_nonzero(c0)) && (!h1 || chk_nonzero(c1)) && (!h2 || chk_nonzero(c2)));
}
static int ri_nonzero(const struct CMStateSet *s)
{
  if (!s->fDynamicBuffer) return 1;
  int ok = 1;
  for (int a = 0; a < NARR; a++) if (s->fDynamicBuffer->fBitArray[a]) { XMLUInt32 any = 0; for (int k = 0; k < CMSTATE_BITFIELD_INT32_SIZE; k++) any |= (XMLUInt32)s->fDynamicBuffer->fBitArray[a][k]; if (!any) ok = 0; }
  return ok;
}
/* are the two sets equal as sets? (word-wise, a null chunk = zeros) */
static int abs_same(const struct CMStateSet *x, const struct CMStateSet *y)
{
  int same = 1;
  if (!x->fDynamicBuffer) { for (int k = 0; k < CMSTATE_CACHED_INT32_SIZE; k++) if (x->fBits[k] != y->fBits[k]) same = 0; return same; }
  for (int a = 0; a < NARR; a++) for (int k = 0; k < CMSTATE_BITFIELD_INT32_SIZE; k++) {
    const XMLInt32 *p = x->fDynamicBuffer->fBitArray[a], *q = y->fDynamicBuffer->fBitArray[a];
    if ((p ? p[k] : 0) != (q ? q[k] : 0)) same = 0;
  }
  return same;
}

void h_cm_stateset_ops(void)
{
  XMLSize_t bits, b, G; _Bool a0, a1, a2, b0, b1, b2, dyn; int op;
  VERIF_INPUT(A); VERIF_INPUT(B); VERIF_INPUT(CA0); VERIF_INPUT(CA1); VERIF_INPUT(CA2); VERIF_INPUT(CB0); VERIF_INPUT(CB1); VERIF_INPUT(CB2); VERIF_INPUT(CN0); VERIF_INPUT(CN1); VERIF_INPUT(CN2);
  VERIF_INPUT(bits); VERIF_INPUT(b); VERIF_INPUT(G); VERIF_INPUT(op);
  VERIF_INPUT(a0); VERIF_INPUT(a1); VERIF_INPUT(a2); VERIF_INPUT(b0); VERIF_INPUT(b1); VERIF_INPUT(b2); VERIF_INPUT(dyn);
  VERIF_ASSUME(dyn ? (bits > (NARR - 1) * CMSTATE_BITFIELD_CHUNK && bits <= NARR * CMSTATE_BITFIELD_CHUNK) : (bits >= 1 && bits <= CMSTATE_CACHED_INT32_SIZE * 32));
  VERIF_ASSUME(G < bits);                    /* ghost index: any bit position */
  VERIF_ASSUME(op >= 0 && op <= 5);
  mk_set(&A, &DA, ARRA.a, &CA0, &CA1, &CA2, bits, a0, a1, a2);
  mk_set(&B, &DB, ARRB.a, &CB0, &CB1, &CB2, bits, b0, b1, b2);      /* operands of |= and == have the same bit count (callers: sets over the same leaf positions) */
  NALLOC = 0; NFREE = 0; ALLOC_BAD = 0; FREE_BAD = 0; verif_thrown = 0;
  int oldG = abs_bit(&A, G), otherG = abs_bit(&B, G);
  if (op == 0) {
    CMStateSet_setBit(b);
    VERIF_CANARY("after setBit");
    if (b >= bits) __CPROVER_assert(verif_thrown && verif_throw_type == VT_ArrayIndexOutOfBoundsException, "C01: setBit beyond fBitCount raises ArrayIndexOutOfBoundsException");
    else { __CPROVER_assert(!verif_thrown, "C01: setBit in range does not throw");
           __CPROVER_assert(abs_bit(&A, G) == (oldG || G == b), "C07/C08: setBit(b) adds b to the set and changes no other member");
           __CPROVER_assert(ri_nonzero(&A), "C01: setBit keeps the representation invariant (no all-zero chunk)"); }
  } else if (op == 1) {
    bool r = CMStateSet_getBit(b);
    if (b >= bits) __CPROVER_assert(verif_thrown && verif_throw_type == VT_ArrayIndexOutOfBoundsException, "C01: getBit beyond fBitCount raises ArrayIndexOutOfBoundsException");
    else __CPROVER_assert(!verif_thrown && (r != 0) == (abs_bit(&A, b) != 0), "C07/C08: getBit(b) tells whether b is in the set");
  } else if (op == 2) {
    CMStateSet_zeroBits();
    __CPROVER_assert(!verif_thrown && abs_bit(&A, G) == 0 && abs_empty(&A), "C07/C08: zeroBits empties the set");
    __CPROVER_assert(!FREE_BAD, "C01: zeroBits releases allocated chunks only");
  } else if (op == 3) {
    bool r = CMStateSet_isEmpty();
    __CPROVER_assert(!verif_thrown && (r != 0) == (abs_empty(&A) != 0), "C07/C08: isEmpty iff no bit is set");
  } else if (op == 4) {
    CMStateSet_orAssign(&B);
    __CPROVER_assert(!verif_thrown && abs_bit(&A, G) == (oldG || otherG), "C07/C08: operator|= is set union");
    __CPROVER_assert(abs_bit(&B, G) == otherG, "C07/C08: operator|= leaves its operand unchanged");
    __CPROVER_assert(ri_nonzero(&A), "C01: operator|= keeps the representation invariant (no all-zero chunk)");
  } else if (op == 5) {
    bool r = CMStateSet_equals(&B);
    __CPROVER_assert(!verif_thrown && (r != 0) == (abs_same(&A, &B) != 0), "C07/C08: operator== holds iff the two sets have the same members");
  }
  __CPROVER_assert(!ALLOC_BAD, "C01: chunks are requested with the chunk size, one per missing chunk");
}
