//@ unit ser_tmpl_RefVectorOf_SchemaAttDef
//@ props C16
//@ kind W
//@ def quick NC=3
//@ def thorough NC=4
//@ def all TAPE_MAX=16
//@ cbmc quick --unwind 9 --unwinding-assertions
//@ cbmc thorough --unwind 11 --unwinding-assertions
//@ entry h_ser_tmpl_RefVectorOf_SchemaAttDef
//@ note W: complete for vectors of <= NC elements (all loops unwound); the real bodies of XTemplateSerializer::storeObject(RefVectorOf<SchemaAttDef>*, serEng) and loadObject(RefVectorOf<SchemaAttDef>**, .., serEng) (XercesAttGroupInfo::fAttributes, fAnyAttributes) run over the tape engine: store mode on a symbolic vector (null / written before / new), then load mode into the owner's empty vector or into none
//@ note container model (contracts/ser_container.inc, trusted stubs): a vector is <= NC entries; size() / elementAt(i) read the stored vector, addElement appends to the loaded one; an element is an object id or null (`serEng << data` / `serEng >> data` move the id; the static type of `data` gives the class tag on both sides); the vector is ORDERED: the postcondition asks for every element back at the same index
//@ note tape engine (contracts/ser_tape.inc): operator<< / operator>> / writeSize / readSize / writeString / readString and the sub-object serialisers (DatatypeValidator::storeDV/loadDV, IdentityConstraint::storeIC/loadIC, Grammar::storeGrammar/loadGrammar, XMLNumber::loadNumber) are trusted stubs that record / check (type tag, value); the tag of a streamed operand comes from its REAL type via _Generic; strings and pointers to serialisable objects are opaque ids (the pointer value stands for the object; loading yields the id that was stored); needToStoreObject / needToLoadObject / registerObject: header record null / reference / new object (contracts/ser_container.inc); the byte-level engine is the subject of units ser_primitives, ser_fillflush, ser_rawbytes
#define VERIF_DEFINE_GHOSTS
#include "verif_prelude.h"
//@ include ser_tape.inc
//@ include ser_container.inc
typedef struct sc_cont RefVectorOf_SchemaAttDef;
typedef struct SchemaAttDef SchemaAttDef;
/*@extract src/xercesc/internal/XTemplateSerializer.cpp XTemplateSerializer::storeObject
params RefVectorOf<SchemaAttDef>
as TS_store
streamops serEng
method serEng.needToStoreObject => ENG_needToStoreObject
method serEng.writeSize => ENG_writeSize
method serEng.writeString => ENG_writeString
method serEng.getMemoryManager => ENG_getMemoryManager
method objToStore->size => SC_size
method objToStore->elementAt => SC_elementAt
@*/
/*@extract src/xercesc/internal/XTemplateSerializer.cpp XTemplateSerializer::loadObject
params RefVectorOf<SchemaAttDef>
as TS_load
sub new\s*\(serEng\.getMemoryManager\(\)\)\s*RefVectorOf<SchemaAttDef>\s*\( => SC_newVec(
streamops serEng
method serEng.needToLoadObject => ENG_needToLoadObject
method serEng.registerObject => ENG_registerObject
method serEng.readSize => ENG_readSize
method serEng.readString => ENG_readString
method serEng.getMemoryManager => ENG_getMemoryManager
method (*objToLoad)->addElement => SC_addElement
method (*objToLoad)->insertElementAt => SC_insertElementAt
@*/
#define SC_HARNESS h_ser_tmpl_RefVectorOf_SchemaAttDef
#define SC_NKEYS 0
#define SC_ORDERED 1
#define SC_INVARIANT(i) 1
#define SC_NULL_ELEMS 1
#define SC_STORE(obj) TS_store(obj, &ENGINE)
#define SC_LOAD(pp, initSize, adopt, initSize2) TS_load(pp, initSize, adopt, &ENGINE)
#define SC_CREATION_OK(initSize, adopt, initSize2) (SC_L.initSize == ((initSize) < 0 ? 16 : (initSize)) && SC_L.adopt == adopt)
//@ include ser_container_harness.inc
