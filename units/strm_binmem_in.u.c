//@ unit strm_binmem_in
//@ props C01
//@ kind L
//@ def quick DN=8
//@ def thorough DN=24
//@ enforce BinMemInputStream_readBytes
//@ enforce BinMemInputStream_curPos
//@ entry h_binmem_in
//@ note L: loop-free (memcpy is cbmc's built-in model; source and destination are byte-typed objects); buffer lengths bounded by -DDN: fCapacity <= DN, maxToRead <= DN; the data buffer and the caller's buffer are END-aligned (fBuffer + fCapacity and toFill + maxToRead are the ends of their objects)
//@ note RI_in: fCurIndex <= fCapacity, fBuffer readable for fCapacity bytes. Delivery spec through ghost positions: the call delivers r = min(available, maxToRead) bytes, byte G of the call is byte (position before the call + G) of the buffer, the position advances by r: by induction over calls the k-th byte delivered overall is byte k of the buffer; toFill beyond r is untouched (ghost GB)
#define VERIF_DEFINE_GHOSTS
#include "verif_prelude.h"
XMLSize_t G, GB;
//@ enum src/xercesc/util/BinMemInputStream.hpp BufOpts - scope=BinMemInputStream
//@ struct src/xercesc/util/BinMemInputStream.hpp BinMemInputStream only=auto enums=BufOpts
#define RI_IN (fCurIndex <= fCapacity && fCapacity <= DN && __CPROVER_r_ok(fBuffer, fCapacity))
#define MINAV(avail, want) (((avail) < (want)) ? (avail) : (want))

/*@extract src/xercesc/util/BinMemInputStream.cpp BinMemInputStream::readBytes
contract
__CPROVER_requires(RI_IN && G < DN && GB < DN && maxToRead <= DN)
__CPROVER_requires(__CPROVER_w_ok(toFill, maxToRead) && !__CPROVER_same_object(toFill, fBuffer))
__CPROVER_assigns(fCurIndex, __CPROVER_object_upto(toFill, maxToRead))
__CPROVER_ensures(RI_IN)
__CPROVER_ensures(__CPROVER_return_value == MINAV(fCapacity - __CPROVER_old(fCurIndex), maxToRead))
__CPROVER_ensures(fCurIndex == __CPROVER_old(fCurIndex) + __CPROVER_return_value)
/* byte G of this call is byte (old position + G) of the buffer */
__CPROVER_ensures((G < __CPROVER_return_value) ==> toFill[G] == fBuffer[__CPROVER_old(fCurIndex) + G])
/* nothing beyond the delivered bytes is written */
__CPROVER_ensures((GB >= __CPROVER_return_value && GB < maxToRead) ==> toFill[GB] == __CPROVER_old(toFill[(GB < maxToRead) ? GB : 0]))
@*/

/*@extract src/xercesc/util/BinMemInputStream.hpp BinMemInputStream::curPos
contract
__CPROVER_requires(1)
__CPROVER_assigns()
__CPROVER_ensures(__CPROVER_return_value == fCurIndex)
@*/

struct { XMLByte a[DN]; } DATA, OUT;
void h_binmem_in(void)
{
  XMLSize_t want;
  VERIF_INPUT(SELF); VERIF_INPUT(DATA); VERIF_INPUT(OUT); VERIF_INPUT(G); VERIF_INPUT(GB); VERIF_INPUT(want);
  VERIF_ASSUME(fCapacity <= DN && want <= DN && want >= 1);
  fBuffer = DATA.a + (DN - fCapacity);
  verif_thrown = 0;
  XMLSize_t r = BinMemInputStream_readBytes(OUT.a + (DN - want), want);
  VERIF_CANARY("after readBytes");
  if (r > 1 && r < want) VERIF_CANARY("readBytes: short read at the end of the buffer reachable");
  if (r == 0) VERIF_CANARY("readBytes: end of data reachable");
  XMLFilePos p = BinMemInputStream_curPos();
  VERIF_CANARY("after curPos");
}
