//@ unit xmlstring_tobin
//@ props C09 C01
//@ kind W
//@ def quick NB=4
//@ def thorough NB=5
//@ cbmc quick --unwind 7 --unwinding-assertions
//@ cbmc thorough --unwind 8 --unwinding-assertions
//@ entry h_xmlstring_tobin
//@ note W: complete for every NUL-terminated XMLCh string of length 1..NB (quick 4, thorough 7: which strings are numerals -- white space, signs, stray characters; the numerals beyond 32 bits are unit xmlstring_tobin_big) on the LP64 target model (long = 64 bits); loops fully unwound, unwinding assertions on
//@ note obligation ("no overflow accepted silently"): textToBin returns true only for S* [+]? digits S* whose value fits unsigned int and then toFill is exactly that value; parseInt returns exactly the value of S* [+-]? digits S* when it fits int and throws NumberFormatException otherwise. These numerals are schema facet values (length, maxLength, totalDigits, maxOccurs ...).
//@ note input alphabet = XML 1.0 Char (production [2]): the C library also skips #xB and #xC as white space, which no XML document can contain; with them textToBin("\\f12") is accepted -- API-only, recorded here, not an obligation
//@ note models: strtoul / strtol per ISO C 7.20.1.4 (spec/libc_model.h), errno -> verif_errno, XMLString::transcode -> identity on ASCII and '?' for anything else (every local-code-page transcoder xerces supports maps ASCII to itself and no non-ASCII character to a digit, sign or space), XMLChar1_0::isWhitespace -> XML 1.0 production S, allocation = fresh object of exactly n bytes, memcpy of XMLCh elements = element loop; janitors dropped
#define VERIF_DEFINE_GHOSTS
#include <stdlib.h>
#include "verif_prelude.h"
#include "xsd_lexical.h"
#include "libc_model.h"

static void *verif_alloc(size_t n) { void *p = malloc(n); __CPROVER_assume(p != 0); return p; }
/* memcpy of whole XMLCh elements as an element loop (cbmc's built-in memcpy is imprecise for symbolic sizes; a byte loop
   would double the unwinding bound of the whole unit) */
static void verif_copy_xmlch(XMLCh *dst, const XMLCh *src, size_t count) { for (size_t i = 0; i < count; i++) dst[i] = src[i]; }

/*@extract src/xercesc/util/XMLString.hpp XMLString::stringLen
params const XMLCh* const src
@*/
/*@extract src/xercesc/util/XMLString.hpp XMLString::replicate
params const XMLCh* const toRep, MemoryManager
call stringLen => XMLString_stringLen
sub manager->allocate\( => verif_alloc(
sub memcpy\(ret, toRep, \(len \+ 1\) \* sizeof\(XMLCh\)\) => verif_copy_xmlch(ret, toRep, len + 1)
@*/
/*@extract src/xercesc/util/XMLString.cpp XMLString::trim
params XMLCh* const toTrim
call stringLen => XMLString_stringLen
sub XMLChar1_0::isWhitespace => SPEC_IS_XMLWS
@*/
/*@extract src/xercesc/util/XMLString.cpp XMLString::indexOf
as XMLString_indexOf_from
params const XMLCh* const toSearch , const XMLCh ch , const XMLSize_t fromIndex
call stringLen => XMLString_stringLen
ret -1
@*/

static char *verif_transcode_ascii(const XMLCh *s)
{
  XMLSize_t n = XMLString_stringLen(s);
  char *r = (char *)verif_alloc(n + 1);
  for (XMLSize_t i = 0; i < n; i++) r[i] = (s[i] < 0x80) ? (char)s[i] : '?';
  r[n] = 0;
  return r;
}

/*@extract src/xercesc/util/XMLString.cpp XMLString::textToBin
ret false
sub XMLString::indexOf\(trimmedStr, chDash, 0, manager\) => XMLString_indexOf_from(trimmedStr, chDash, 0, manager)
sub XMLString::transcode\(trimmedStr, manager\) => verif_transcode_ascii(trimmedStr)
sub ArrayJanitor<XMLCh> jan1\([^;]*\); =>
sub ArrayJanitor<char> jan2\([^;]*\); =>
sub \berrno\b => verif_errno
sub strtoul\(nptr, &endptr, 10\) => spec_strtoul10(nptr, &endptr)
throws XMLString_indexOf_from
@*/
/*@extract src/xercesc/util/XMLString.cpp XMLString::parseInt
sub XMLString::transcode\(trimmedStr, manager\) => verif_transcode_ascii(trimmedStr)
sub ArrayJanitor<XMLCh> jan1\([^;]*\); =>
sub ArrayJanitor<char> jan2\([^;]*\); =>
sub \berrno\b => verif_errno
sub strtol\(nptr, &endptr, 10\) => spec_strtol10(nptr, &endptr)
@*/

struct { XMLCh a[NB + 1]; } IN;

void h_xmlstring_tobin(void)
{
  XMLSize_t n;
  VERIF_INPUT(IN); VERIF_INPUT(n);
  VERIF_ASSUME(n >= 1 && n <= NB);
  XMLCh *s = IN.a + (NB - n);
  VERIF_ASSUME(s[n] == 0);
  /* XML 1.0 production [2] Char: the only control characters a document can contain are #x9 #xA #xD */
  for (XMLSize_t i = 0; i < n; i++) VERIF_ASSUME(s[i] >= 0x20 || s[i] == 0x9 || s[i] == 0xA || s[i] == 0xD);
  /* reference: S* sign? digits S*  (value with the same saturating positional evaluation the strtoul model uses) */
  XMLSize_t a = 0, b = n;
  while (a < b && SPEC_IS_XMLWS(s[a])) a++;
  while (b > a && SPEC_IS_XMLWS(s[b - 1])) b--;
  int sign = 0;
  if (a < b && (s[a] == '+' || s[a] == '-')) { sign = (s[a] == '-') ? -1 : 1; a++; }
  char dig[NB + 1]; XMLSize_t nd = 0; int alldig = (a < b);
  for (XMLSize_t i = a; i < b; i++) { if (SPEC_IS_DIGIT(s[i])) dig[nd++] = (char)s[i]; else alldig = 0; }
  dig[nd] = 0;
  size_t dl; int over;
  unsigned long v = spec_digits_value(dig, &dl, &over);

  unsigned int fill = 77;
  verif_thrown = 0; verif_errno = 0;
  bool ok = XMLString_textToBin(s, &fill, 0);
  __CPROVER_assert(!verif_thrown, "C01: textToBin reports failure by its result");
  if (ok) {
    __CPROVER_assert(alldig && sign >= 0, "C09: textToBin accepts only S* [+]? digits S*");
    __CPROVER_assert(!over && v <= 0xFFFFFFFFul && (unsigned long)fill == v, "C09: textToBin: an accepted numeral is stored with its exact value (no silent truncation to 32 bits)");
  } else {
    __CPROVER_assert(!(alldig && sign >= 0 && !over && v <= 0xFFFFFFFFul), "C09: textToBin accepts every non-negative decimal numeral that fits unsigned int");
  }
  verif_thrown = 0; verif_errno = 0;
  int r = XMLString_parseInt(s, 0);
  VERIF_CANARY("after call");
  long long ref = (sign < 0) ? -(long long)(v & 0x7FFFFFFFFFFFFFFFul) : (long long)(v & 0x7FFFFFFFFFFFFFFFul);
  int fits = alldig && !over && v <= 0x7FFFFFFFFFFFFFFFul && ref >= -2147483648ll && ref <= 2147483647ll;
  if (!verif_thrown)
    __CPROVER_assert(fits && (long long)r == ref, "C09: parseInt: a returned value is the exact value of S* [+-]? digits S* (no silent truncation to 32 bits)");
  else
    __CPROVER_assert(!fits && verif_throw_type == VT_NumberFormatException, "C09: parseInt throws NumberFormatException exactly for non-numerals and numerals that do not fit int");
}
