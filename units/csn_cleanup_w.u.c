//@ unit csn_cleanup_w
//@ props C01
//@ kind W
//@ def quick NN=4
//@ def thorough NN=5
//@ cbmc all --unwind 14 --unwinding-assertions
//@ entry h_cleanup
//@ note W: ContentSpecNode::cleanup (the destructor's body) and ContentSpecNode::deleteChildNode over every content-spec tree of <= NN nodes (every shape, every combination of adopt flags that is a tree: each node adopted by at most one parent); the work-list loop is unwound completely
//@ note obligation (C01 "no stack exhaustion on arbitrary input": content models are as deep as the DTD / schema author likes): a node is handed to `delete` only after its adopted children have been detached, so the destruction of a tree never nests destructors deeper than one level; every adopted node is deleted exactly once and no other node is
//@ note trusted stubs: ValueStackOf<ContentSpecNode*> is a bounded array stack; `delete node` records the node and checks that it has no adopted child left (the real destructor would call cleanup() on it recursively); isFirstAdopted / orphanFirst etc. are the one-line accessors of ContentSpecNode.hpp; delete of the QName is a no-op
#define VERIF_DEFINE_GHOSTS
#include "verif_prelude.h"
typedef struct ContentSpecNode ContentSpecNode;
struct ContentSpecNode { ContentSpecNode *fFirst, *fSecond; _Bool fAdoptFirst, fAdoptSecond; void *fElement; };
struct { ContentSpecNode n[NN]; } TREE;
int DELETED[NN]; int NESTED_DELETE;
#define STKN (2 * NN + 2)
ContentSpecNode *STK[STKN]; int SP;
static void STK_init(void) { SP = 0; }
static void STK_push(ContentSpecNode *n) { __CPROVER_assert(SP < STKN, "work-list bound"); if (SP < STKN) STK[SP] = n; SP++; }
static bool STK_empty(void) { return SP == 0; }
static ContentSpecNode* STK_pop(void) { SP--; return STK[SP >= 0 && SP < STKN ? SP : 0]; }
static ContentSpecNode* CSN_orphanFirst(ContentSpecNode *n) { ContentSpecNode *r = n->fFirst; n->fFirst = 0; return r; }
static ContentSpecNode* CSN_orphanSecond(ContentSpecNode *n) { ContentSpecNode *r = n->fSecond; n->fSecond = 0; return r; }
static void CSN_delete(ContentSpecNode *n)
{
  if (!n) return;
  if ((n->fAdoptFirst && n->fFirst) || (n->fAdoptSecond && n->fSecond)) NESTED_DELETE = 1;   /* its destructor would recurse */
  int k = (int)(n - &TREE.n[0]);
  if (k >= 0 && k < NN) DELETED[k]++;
}
static void QN_delete(void *q) { }

/*@extract src/xercesc/validators/common/ContentSpecNode.cpp ContentSpecNode::deleteChildNode
as CSN_deleteChildNode
selfparam ContentSpecNode
sub* ValueStackOf<ContentSpecNode\*>\s+toBeDeleted\(10, fMemoryManager\); => STK_init();
sub* toBeDeleted\.push\( => STK_push(
sub* toBeDeleted\.empty\(\) => STK_empty()
sub* toBeDeleted\.pop\(\) => STK_pop()
sub* (\w+)->isFirstAdopted\(\) => \1->fAdoptFirst
sub* (\w+)->isSecondAdopted\(\) => \1->fAdoptSecond
sub* (\w+)->orphanFirst\(\) => CSN_orphanFirst(\1)
sub* (\w+)->orphanSecond\(\) => CSN_orphanSecond(\1)
sub* delete (\w+); => CSN_delete(\1);
@*/

/*@extract src/xercesc/validators/common/ContentSpecNode.cpp ContentSpecNode::cleanup
as CSN_cleanup
selfparam ContentSpecNode
sub* deleteChildNode\( => CSN_deleteChildNode(self, 
sub* delete fElement; => QN_delete(self->fElement);
sub* delete (fFirst|fSecond); => CSN_delete(self->\1);
sub* (?<!->)\b(fAdoptFirst|fAdoptSecond|fFirst|fSecond|fElement)\b => self->\1
@*/

struct { int first[NN], second[NN]; unsigned char af[NN], as[NN]; } SHAPE;
void h_cleanup(void)
{
  VERIF_INPUT(SHAPE);
  /* a tree rooted at node 0: children have larger indices; each node is the child of at most one parent slot */
  int parents[NN]; for (int k = 0; k < NN; k++) parents[k] = 0;
  for (int k = 0; k < NN; k++) {
    int a = SHAPE.first[k], b = SHAPE.second[k];
    VERIF_ASSUME(a == -1 || (a > k && a < NN));
    VERIF_ASSUME(b == -1 || (b > k && b < NN));
    ContentSpecNode *n = &TREE.n[k];
    n->fFirst = a < 0 ? (ContentSpecNode*)0 : &TREE.n[a]; n->fSecond = b < 0 ? (ContentSpecNode*)0 : &TREE.n[b];
    n->fAdoptFirst = (SHAPE.af[k] & 1) != 0; n->fAdoptSecond = (SHAPE.as[k] & 1) != 0; n->fElement = 0;
    if (a >= 0) parents[a]++;
    if (b >= 0) parents[b]++;
    DELETED[k] = 0;
  }
  for (int k = 1; k < NN; k++) VERIF_ASSUME(parents[k] <= 1);
  /* expected: the nodes reachable from the root through adopting links */
  int owned[NN]; for (int k = 0; k < NN; k++) owned[k] = 0;
  owned[0] = 1;
  for (int k = 0; k < NN; k++) if (owned[k]) {
    if (SHAPE.first[k] >= 0 && (SHAPE.af[k] & 1)) owned[SHAPE.first[k]] = 1;
    if (SHAPE.second[k] >= 0 && (SHAPE.as[k] & 1)) owned[SHAPE.second[k]] = 1;
  }
  NESTED_DELETE = 0; verif_thrown = 0;
  CSN_cleanup(&TREE.n[0]);
  VERIF_CANARY("after cleanup");
  __CPROVER_assert(!NESTED_DELETE, "C01: a node is deleted only after its adopted children were detached: destruction depth does not grow with the depth of the content model");
  int g; VERIF_INPUT(g); VERIF_ASSUME(g >= 1 && g < NN);
  __CPROVER_assert(DELETED[g] == (owned[g] ? 1 : 0), "C01: every adopted descendant is deleted exactly once, nothing else is (no leak, no double delete)");
  __CPROVER_assert(DELETED[0] == 0, "C01: cleanup does not delete its own node");
  if (owned[NN - 1] && SHAPE.first[NN - 2] == NN - 1 && owned[NN - 2]) { VERIF_CANARY("deep tree reachable"); }
}
