//@ unit nsmap_wf_tag_w
//@ props C06
//@ kind W
//@ def quick NATT=3
//@ def thorough NATT=4
//@ cbmc all --unwind 10 --unwinding-assertions
//@ entry h_wf_tag
//@ note fragments of WFXMLScanner::scanStartTagNS verified as functions of their own: (1) the per-attribute namespace step (xml / xmlns prefixes, declarations added to the element stack, other prefixed attributes deferred), (2) the resolution loop after the tag; with the real XMLScanner::resolvePrefix.  The harness runs (1) for each of <= NATT attributes in document order and then (2): complete for start tags of <= NATT attributes over all combinations of prefix / local-name / value kinds and every outer binding of the two ordinary prefixes
//@ note strings are kinds (contracts/nsmap_common.inc); trusted stubs: fElemStack.addPrefix / mapPrefixToURI (harness map: declarations of this element, newest first, then the outer scope; the real ones are proved in elemstack_addPrefix / elemstack_lookup), fURIStringPool->addOrFind (injective), fAttrNSList (bounded vector), emitError (recording)
#define VERIF_DEFINE_GHOSTS
#include "verif_prelude.h"
//@ include nsmap_common.inc
enum { K_P = K_OTHER, K_Q = K_OTHER2, K_A = 8, K_U1 = 9, K_U2 = 10 };
enum { ElemStack_Mode_Attribute = 0, ElemStack_Mode_Element = 1 };
enum { ID_EMPTY = 1, ID_UNKNOWN = 2, ID_XML = 3, ID_XMLNS = 4 };
#define fEmptyNamespaceId ID_EMPTY
#define fXMLNamespaceId ID_XML
#define fXMLNSNamespaceId ID_XMLNS
struct XMLAttr { int prefix, local, value; unsigned int uri; int uriSets; }; typedef struct XMLAttr XMLAttr;
struct { XMLAttr a[NATT]; } ATTS;
/* harness prefix map: declarations of this element in order of addPrefix, outer scope: OUTER[0] for K_P, OUTER[1] for K_Q (0 = unbound) */
struct { int prefix[NATT]; unsigned int uri[NATT]; } DECL; int NDECL;
struct { unsigned int u[2]; } OUTER;
static void ES_addPrefixL(int prefixKind, unsigned int uriId) { if (NDECL < NATT) { DECL.prefix[NDECL] = prefixKind; DECL.uri[NDECL] = uriId; } NDECL++; }
#define ES_mapPrefixToURI(p, u) ES_mapPrefixToURI_((p), &(u))   /* bool& in the real signature */
static unsigned int ES_mapPrefixToURI_(int prefix, bool *unknown)
{
  *unknown = false;
  for (int k = NATT - 1; k >= 0; k--) if (k < NDECL && DECL.prefix[k] == prefix) return DECL.uri[k];
  if (prefix == K_P && OUTER.u[0]) return OUTER.u[0];
  if (prefix == K_Q && OUTER.u[1]) return OUTER.u[1];
  if (prefix == K_EMPTY) return ID_EMPTY;
  *unknown = true; return ID_UNKNOWN;
}
static unsigned int ES_getEmptyNamespaceId(void) { return ID_EMPTY; }
XMLAttr *NSL[NATT]; int NSLN;
static void NSL_add(XMLAttr *a) { if (NSLN < NATT) NSL[NSLN] = a; NSLN++; }
static unsigned int NSL_size(void) { return (unsigned)NSLN; }
static XMLAttr* NSL_at(unsigned int i) { __CPROVER_assert(i < (unsigned)NSLN && i < NATT, "C01: fAttrNSList index in range"); return NSL[i < NATT ? i : 0]; }
static void AT_setURIId(XMLAttr *a, unsigned int id) { a->uri = id; a->uriSets++; }
int CUR_VALUE;

/*@extract src/xercesc/internal/XMLScanner.cpp XMLScanner::resolvePrefix
as SC_resolvePrefix
sig unsigned int SC_resolvePrefix(int prefix, int mode)
fragment ^\{ ||| \}\s*$
sub* \*prefix\b => (prefix != K_EMPTY)
sub* XMLString::equals\((\w+), XMLUni::fgXMLNSString\) => ST_equalsK(\1, K_XMLNS)
sub* XMLString::equals\((\w+), XMLUni::fgXMLString\) => ST_equalsK(\1, K_XML)
sub* fElemStack\.mapPrefixToURI\( => ES_mapPrefixToURI(
sub* fElemStack\.getEmptyNamespaceId\(\) => ES_getEmptyNamespaceId()
sub* emitError\((XMLErrs::\w+)(?:, \w+)?\) => SC_emitError(\1)
sub* ElemStack::Mode_ => ElemStack_Mode_
sub* XMLReader::XMLV1_0 => XMLReader_XMLV1_0
@*/

/*@extract src/xercesc/internal/WFXMLScanner.cpp WFXMLScanner::scanStartTagNS
as WF_attr_ns
fragment const XMLCh\* attPrefix = curAtt->getPrefix\(\); ||| (?=\s*attCount\+\+;)
sig void WF_attr_ns(XMLAttr *curAtt, int attNameRawBuf)
sub const XMLCh\* attPrefix = => int attPrefix =
sub const XMLCh\* attLocalName = => int attLocalName =
sub const XMLCh\* namespaceURI = => int namespaceURI =
sub* curAtt->getPrefix\(\) => curAtt->prefix
sub* curAtt->getName\(\) => curAtt->local
sub* fAttValueBuf\.getRawBuffer\(\) => CUR_VALUE
sub* \*attPrefix\b => (attPrefix != K_EMPTY)
sub* \*namespaceURI\b => (namespaceURI != K_EMPTY)
sub* XMLString::equals\((\w+), XMLUni::fgXMLNSString\) => ST_equalsK(\1, K_XMLNS)
sub* XMLString::equals\(XMLUni::fgXMLNSString, (\w+)\) => ST_equalsK(\1, K_XMLNS)
sub* XMLString::equals\((\w+), XMLUni::fgXMLString\) => ST_equalsK(\1, K_XML)
sub* XMLString::equals\((\w+), XMLUni::fgXMLURIName\) => ST_equalsK(\1, K_XMLURI)
sub* XMLString::equals\((\w+), XMLUni::fgXMLNSURIName\) => ST_equalsK(\1, K_XMLNSURI)
sub* emitError\((XMLErrs::\w+)(?:, \w+)?\) => SC_emitError(\1)
sub* fElemStack\.addPrefix\s*\( => ES_addPrefixL(
sub* fElemStack\.mapPrefixToURI\( => ES_mapPrefixToURI(
sub* fURIStringPool->addOrFind\( => SP_addOrFind(
sub* XMLUni::fgZeroLenString => K_EMPTY
sub* (\w+)->setURIId\s*\( => AT_setURIId(\1,
sub* fAttrNSList->addElement\( => NSL_add(
sub* resolvePrefix\s*\( => SC_resolvePrefix(
sub* ElemStack::Mode_ => ElemStack_Mode_
sub* XMLReader::XMLV1_0 => XMLReader_XMLV1_0
@*/

/*@extract src/xercesc/internal/WFXMLScanner.cpp WFXMLScanner::scanStartTagNS
as WF_resolve_deferred
fragment for \(unsigned int i=0; i < fAttrNSList->size\(\); i\+\+\) \{ ||| \}
sig void WF_resolve_deferred(void)
sub* fAttrNSList->size\(\) => NSL_size()
sub* fAttrNSList->elementAt\( => NSL_at(
sub* (\w+)->setURIId\s*\( => AT_setURIId(\1,
sub* (\w+)->getPrefix\(\) => \1->prefix
sub* resolvePrefix\s*\( => SC_resolvePrefix(
sub* ElemStack::Mode_ => ElemStack_Mode_
@*/

/* spec (Namespaces in XML, sections 3, 5 and 6.1): the scope of a declaration is the element it is written on, INCLUDING the
 * attributes written before it in the same start tag; the innermost declaration wins; the default namespace does not apply to
 * attributes; xml is pre-bound; an undeclared prefix is an error */
void h_wf_tag(void)
{
  int n;
  VERIF_INPUT(ATTS); VERIF_INPUT(OUTER); VERIF_INPUT(n); VERIF_INPUT(fXMLVersion); VERIF_INPUT(DECL);
  VERIF_ASSUME(n >= 1 && n <= NATT);
  VERIF_ASSUME(fXMLVersion == XMLReader_XMLV1_0 || fXMLVersion == XMLReader_XMLV1_1);
  VERIF_ASSUME(OUTER.u[0] == 0 || OUTER.u[0] == 200 || OUTER.u[0] == 201);
  VERIF_ASSUME(OUTER.u[1] == 0 || OUTER.u[1] == 200 || OUTER.u[1] == 201);
  for (int i = 0; i < NATT; i++) {
    VERIF_ASSUME(ATTS.a[i].prefix == K_EMPTY || ATTS.a[i].prefix == K_XML || ATTS.a[i].prefix == K_XMLNS || ATTS.a[i].prefix == K_P || ATTS.a[i].prefix == K_Q);
    VERIF_ASSUME(ATTS.a[i].local == K_XMLNS || ATTS.a[i].local == K_XML || ATTS.a[i].local == K_P || ATTS.a[i].local == K_Q || ATTS.a[i].local == K_A);
    VERIF_ASSUME(ATTS.a[i].value == K_NULL || ATTS.a[i].value == K_EMPTY || ATTS.a[i].value == K_XMLURI || ATTS.a[i].value == K_XMLNSURI || ATTS.a[i].value == K_U1 || ATTS.a[i].value == K_U2);
    ATTS.a[i].uri = ID_EMPTY; ATTS.a[i].uriSets = 0;     /* curAtt->set(fEmptyNamespaceId, ...) just before the fragment */
  }
  NERR = 0; NDECL = 0; NSLN = 0; verif_thrown = 0;
  for (int i = 0; i < NATT; i++) if (i < n) { CUR_VALUE = ATTS.a[i].value; WF_attr_ns(&ATTS.a[i], 0); }
  WF_resolve_deferred();
  VERIF_CANARY("after tag");
  __CPROVER_assert(!verif_thrown, "C06: no exception from namespace processing of a start tag");
  int g; VERIF_INPUT(g); VERIF_ASSUME(g >= 0 && g < n && g < NATT);
  XMLAttr *a = &ATTS.a[g];
  /* the declarations of this tag, wherever they are written */
  int ndeclP = 0; unsigned int declUri = 0; int ndecls = 0;
  for (int k = 0; k < NATT; k++) if (k < n) {
    int isdecl = (ATTS.a[k].prefix == K_XMLNS) || (ATTS.a[k].prefix == K_EMPTY && ATTS.a[k].local == K_XMLNS);
    if (isdecl) ndecls++;
    if (ATTS.a[k].prefix == K_XMLNS && ATTS.a[k].local == a->prefix) { ndeclP++; declUri = SP_addOrFind(ATTS.a[k].value); }
  }
  __CPROVER_assert(NDECL == ndecls, "C06: every namespace declaration of the tag is entered into the element's prefix map, nothing else is");
  if (a->prefix == K_XML) { __CPROVER_assert(a->uri == ID_XML, "C06: the prefix xml is bound to the XML namespace"); }
  if (a->prefix == K_XMLNS) { __CPROVER_assert(a->uri == ID_XMLNS, "C06: xmlns:* attributes are in the xmlns namespace"); }
  if (a->prefix == K_EMPTY) { __CPROVER_assert(a->uri == ID_EMPTY, "C06: the default namespace does not apply to attributes"); }
  if (a->prefix == K_P || a->prefix == K_Q) {
    unsigned int outer = OUTER.u[a->prefix == K_P ? 0 : 1];
    if (ndeclP == 1) { VERIF_CANARY("declared in this tag"); __CPROVER_assert(a->uri == declUri, "C06: a prefixed attribute is bound by the declaration on its own start tag, written before or after it, ahead of any outer binding"); }
    else if (ndeclP == 0 && outer) { __CPROVER_assert(a->uri == outer, "C06: a prefixed attribute is bound by the nearest enclosing declaration"); }
    else if (ndeclP == 0) { __CPROVER_assert(a->uri == ID_UNKNOWN && has_err(XMLErrs_UnknownPrefix), "C06: an unbound attribute prefix is reported"); }
  }
  if (!((a->prefix == K_P || a->prefix == K_Q) && ndeclP == 0 && OUTER.u[a->prefix == K_P ? 0 : 1] == 0)) {
    int unboundOther = 0;
    for (int k = 0; k < NATT; k++) if (k < n && (ATTS.a[k].prefix == K_P || ATTS.a[k].prefix == K_Q)) {
      int d = 0; for (int j = 0; j < NATT; j++) if (j < n && ATTS.a[j].prefix == K_XMLNS && ATTS.a[j].local == ATTS.a[k].prefix) d = 1;
      if (!d && OUTER.u[ATTS.a[k].prefix == K_P ? 0 : 1] == 0) unboundOther = 1;
    }
    if (!unboundOther) { __CPROVER_assert(!has_err(XMLErrs_UnknownPrefix), "C06: no UnknownPrefix error when every attribute prefix is bound"); }
  }
}
