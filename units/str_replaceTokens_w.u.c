//@ unit str_replaceTokens_w
//@ props C01
//@ kind W
//@ def quick NT=4 NR=3
//@ def thorough NT=6 NR=4
//@ cbmc all --unwind 9 --unwinding-assertions
//@ timeout quick=600 thorough=1800
//@ entry h_replaceTokens
//@ note W: complete for every message template of length <= NT (incl. {0}..{3} tokens), every replacement text of length <= NR, every maxChars <= NT; this is the formatter behind XMLScanner::emitError's errText[2048]
//@ note XMLString::replicate is a harness stub (copy into a separate object of exactly len+1 elements); the ArrayJanitor that frees it is dropped
#define VERIF_DEFINE_GHOSTS
#include "verif_prelude.h"
//@ table src/xercesc/util/XMLString.cpp gNullStr
struct { XMLCh a[NT + 1]; } ERRTEXT, ORG;
struct { XMLCh a[NR + 1]; } T1, T2, T3, T4;
static XMLCh* ST_replicate(const XMLCh *s) { XMLSize_t k = 0; for (; k < NT + 1; k++) { ORG.a[k] = s[k]; if (!s[k]) break; } return ORG.a; }

/* leaf helpers a refactoring of the function is likely to call: extracted for real so that such a change is judged, not undecided */
/*@extract src/xercesc/util/XMLString.hpp XMLString::stringLen
params const XMLCh* const src
static
@*/

/*@extract src/xercesc/util/XMLString.cpp XMLString::replaceTokens
call stringLen => XMLString_stringLen
sub XMLCh\* orgText = replicate\(errText, manager\); => XMLCh* orgText = ST_replicate(errText);
sub ArrayJanitor<XMLCh> janText\(orgText, manager\); =>
@*/

void h_replaceTokens(void)
{
  XMLSize_t maxChars, tlen; _Bool n1, n2, n3, n4;
  VERIF_INPUT(ERRTEXT); VERIF_INPUT(T1); VERIF_INPUT(T2); VERIF_INPUT(T3); VERIF_INPUT(T4);
  VERIF_INPUT(maxChars); VERIF_INPUT(tlen); VERIF_INPUT(n1); VERIF_INPUT(n2); VERIF_INPUT(n3); VERIF_INPUT(n4);
  VERIF_ASSUME(maxChars <= NT && tlen <= maxChars);
  /* the caller's buffer holds maxChars+1 elements, end-aligned so that a write past errText[maxChars] leaves the object */
  XMLCh *err = ERRTEXT.a + (NT - maxChars);
  VERIF_ASSUME(err[tlen] == 0);
  T1.a[NR] = 0; T2.a[NR] = 0; T3.a[NR] = 0; T4.a[NR] = 0;
  XMLCh tmpl[NT + 1]; for (XMLSize_t k = 0; k < NT + 1; k++) tmpl[k] = (k <= tlen) ? err[k] : 0;
  const XMLCh *t[4] = { n1 ? (const XMLCh*)0 : (const XMLCh*)T1.a, n2 ? (const XMLCh*)0 : (const XMLCh*)T2.a, n3 ? (const XMLCh*)0 : (const XMLCh*)T3.a, n4 ? (const XMLCh*)0 : (const XMLCh*)T4.a };
  XMLSize_t r = XMLString_replaceTokens(err, maxChars, t[0], t[1], t[2], t[3], (MemoryManager*)0);
  VERIF_CANARY("after call");

  __CPROVER_assert(r <= maxChars && err[r] == 0, "C01: result is NUL-terminated within the maxChars+1 elements of the caller's buffer");
  /* reference expansion, truncated at maxChars */
  XMLCh exp[NT + 1]; XMLSize_t o = 0, i = 0;
  while (tmpl[i] && o < maxChars) {
    if (tmpl[i] == '{' && tmpl[i + 1] >= '0' && tmpl[i + 1] <= '3' && tmpl[i + 2] == '}') {
      const XMLCh *rep = t[tmpl[i + 1] - '0']; i += 3;
      if (!rep) rep = gNullStr;
      for (XMLSize_t k = 0; rep[k] && o < maxChars; k++) exp[o++] = rep[k];
    } else exp[o++] = tmpl[i++];
  }
  __CPROVER_assert(r == o, "C01/C03: length of the expanded message (truncated to maxChars)");
  for (XMLSize_t k = 0; k < NT; k++) if (k < o && k < r) __CPROVER_assert(err[k] == exp[k], "C03: expanded message text");
}
