//@ unit domser_validstring
//@ props C12 C01
//@ kind W
//@ def quick NV=5 NRECON=1
//@ def thorough NV=8 NRECON=1
//@ cbmc all --unwind 10 --unwinding-assertions
//@ cbmc all --arrays-uf-always
//@ entry h_validstring
//@ note W: complete for every string of length <= NV (all 16-bit code units, null pointer included) x XML 1.0 / 1.1; the loop of ensureValidString and the two-argument XMLChar1_0/1_1::isXMLChar are the real text, fully unwound
//@ note the two Char tables are ARBITRARY (nondet 64K tables given by VERIF_INPUT) under the one fact proved of the real tables in chartab_10 / chartab_11: no surrogate code unit is a Char; reportError (contracts/domser_stubs.inc) records (severity, code, node) and throws on a fatal error like the real one (FATAL_THROWS also lets it return: the code provides for it)
//@ note spec (XML 1.0/1.1 [2] Char over UTF-16): a string is writable iff every code unit is a Char of the version's table or the units form a lead/trail surrogate pair; C12: "content that cannot be expressed as well-formed XML is reported as an error rather than emitted": a fatal INVALID_CHARACTER_ERR iff the string is not writable
#define VERIF_DEFINE_GHOSTS
#include "verif_prelude.h"
//@ enum src/xercesc/dom/DOMError.hpp ErrorSeverity DOMError_ scope=DOMError
//@ enum src/xercesc/util/XMLDOMMsg.hpp Codes XMLDOMMsg_ scope=XMLDOMMsg
//@ enum src/xercesc/framework/XMLFormatter.hpp EscapeFlags XMLFormatter_ scope=XMLFormatter
//@ enum src/xercesc/framework/XMLFormatter.hpp UnRepFlags XMLFormatter_ scope=XMLFormatter
//@ table src/xercesc/util/XMLChar.hpp gXMLCharMask
typedef struct DOMNode { int tag; } DOMNode;
static const XMLCh gStartCDATA[1] = { 0 }, gEndCDATA[1] = { 0 };   /* the sink of domser_stubs.inc is not used here */
//@ include domser_stubs.inc
struct { XMLByte a[0x10000]; } T10, T11;
#define fgCharCharsTable1_0 (T10.a)
#define fgCharCharsTable1_1 (T11.a)
_Bool fIsXml11;

/*@extract src/xercesc/util/XMLChar.hpp XMLChar1_0::isXMLChar
@*/
/*@extract src/xercesc/util/XMLChar.hpp XMLChar1_1::isXMLChar
@*/

/*@extract src/xercesc/dom/impl/DOMLSSerializerImpl.cpp DOMLSSerializerImpl::ensureValidString
sub isXMLChar\(\*cursor\) => isXMLChar(*cursor, 0)
sub reportError\( => SER_reportError(
throws SER_reportError
@*/

struct { XMLCh a[NV + 1]; } VAL;
DOMNode NODE_TAG;

void h_validstring(void)
{
  XMLSize_t n; _Bool isnull;
  VERIF_INPUT(VAL); VERIF_INPUT(n); VERIF_INPUT(isnull); VERIF_INPUT(T10); VERIF_INPUT(T11); VERIF_INPUT(fIsXml11); VERIF_INPUT(FATAL_THROWS);
  VERIF_ASSUME(n <= NV);
  XMLCh *s = VAL.a + (NV - n);
  VERIF_ASSUME(s[n] == 0);
  for (XMLSize_t k = 0; k < NV; k++) if (k < n) {
    VERIF_ASSUME(s[k] != 0);
    /* chartab_10 / chartab_11: surrogate code units are not Chars */
    if (s[k] >= 0xD800 && s[k] <= 0xDFFF) VERIF_ASSUME(!(T10.a[s[k]] & gXMLCharMask) && !(T11.a[s[k]] & gXMLCharMask));
  }
  SER_reset(); ERR_EXPECT_CODE = XMLDOMMsg_INVALID_CHARACTER_ERR; ERR_EXPECT_NODE = &NODE_TAG;

  DOMLSSerializerImpl_ensureValidString(&NODE_TAG, isnull ? (const XMLCh*)0 : s);
  VERIF_CANARY("after call");

  /* reference: scan by characters */
  int valid = 1, pairs = 0; XMLSize_t i = 0;
  for (XMLSize_t step = 0; step < NV; step++) if (i < n) {
    XMLCh c = s[i];
    if (c >= 0xD800 && c <= 0xDBFF) { if (i + 1 < n && s[i + 1] >= 0xDC00 && s[i + 1] <= 0xDFFF) { i += 2; pairs++; } else { valid = 0; i++; } }
    else { if (c >= 0xDC00 && c <= 0xDFFF) valid = 0; else if (!((fIsXml11 ? T11.a[c] : T10.a[c]) & gXMLCharMask)) valid = 0; i++; }
  }
  if (isnull) valid = 1;
  if (valid && pairs && !isnull) VERIF_CANARY("a string with a surrogate pair is accepted");

  __CPROVER_assert((ERR_FATALS >= 1) == !valid, "C12: a fatal error is reported iff the string holds a code unit that is no XML Char of the version in force and no part of a surrogate pair");
  __CPROVER_assert(ERR_COUNT == ERR_FATALS && !ERR_OTHER_CODE && !ERR_WRONG_NODE, "C12: the report is INVALID_CHARACTER_ERR, fatal, on the node being written");
  __CPROVER_assert(verif_thrown == (!valid && FATAL_THROWS), "C12: serialisation is abandoned exactly when the error is raised");
  if (FATAL_THROWS) __CPROVER_assert(ERR_COUNT <= 1, "C12: nothing goes on after the exception");
}
