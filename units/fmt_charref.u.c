//@ unit fmt_charref
//@ props C12 C01
//@ kind W
//@ cbmc all --unwind 23 --unwinding-assertions
//@ entry h_fmt_charref
//@ note W: complete over every XMLCh (overload writeCharRef(const XMLCh&)) and every XMLSize_t value (overload writeCharRef(XMLSize_t), 64 bit, <= 16 hex digits; the code points <= 0x10FFFF of the property are a subset); all loops (digit generation, reversal, stringLen) fully unwound with unwinding assertions
//@ note the real callees XMLString::binToText(int) -> binToText(long) -> binToText(unsigned long), XMLString::sizeToText and XMLString::stringLen (XMLCh variants) are extracted and verified along; the overload taken for an XMLCh argument is resolved by hand: char16_t undergoes integral promotion to int (C++ [conv.prom]), so binToText(int, XMLCh*, ...) is the best match
//@ note formatBuf (the consumer of the text) is a harness stub that records its arguments: the unit checks the text handed to formatBuf(.., NoEscapes, UnRep_Fail); that formatBuf passes NoEscapes text through unchanged is the subject of unit fmt_formatbuf
#define VERIF_DEFINE_GHOSTS
#include "verif_prelude.h"
#include "escape.h"

typedef int XMLFormatter_EscapeFlags;
typedef int XMLFormatter_UnRepFlags;
//@ enum src/xercesc/framework/XMLFormatter.hpp EscapeFlags XMLFormatter_ scope=XMLFormatter
//@ enum src/xercesc/framework/XMLFormatter.hpp UnRepFlags XMLFormatter_ scope=XMLFormatter
//@ struct src/xercesc/framework/XMLFormatter.hpp XMLFormatter only=auto

/* ---- stub: records what writeCharRef hands to formatBuf ---- */
#define CAPN 24
struct { XMLCh a[CAPN]; } CAP;
XMLSize_t CAP_n; int CAP_esc, CAP_unrep, CAP_calls; _Bool CAP_nul;
static void STUB_formatBuf(const XMLCh *toFormat, XMLSize_t count, int esc, int unrep)
{
  CAP_calls++; CAP_n = count; CAP_esc = esc; CAP_unrep = unrep;
  __CPROVER_assert(count < CAPN, "C12: character reference text is at most &#x + 16 digits + ;");
  for (XMLSize_t i = 0; i < count && i < CAPN; i++) CAP.a[i] = toFormat[i];
  CAP_nul = (count < CAPN) ? (toFormat[count] == 0) : 0;
}

/*@extract src/xercesc/util/XMLString.hpp XMLString::stringLen
params const XMLCh* const src
@*/
/*@extract src/xercesc/util/XMLString.cpp XMLString::binToText
params unsigned long toFormat , XMLCh* const
as XMLString_binToText_ulong
@*/
/*@extract src/xercesc/util/XMLString.cpp XMLString::binToText
params const long toFormat , XMLCh* const
as XMLString_binToText_long
call binToText => XMLString_binToText_ulong
throws XMLString_binToText_ulong
@*/
/*@extract src/xercesc/util/XMLString.cpp XMLString::binToText
params const int toFormat , XMLCh* const
as XMLString_binToText_int
call binToText => XMLString_binToText_long
throws XMLString_binToText_long
@*/
/*@extract src/xercesc/util/XMLString.cpp XMLString::sizeToText
params const XMLSize_t toFormat , XMLCh* const
@*/

/*@extract src/xercesc/framework/XMLFormatter.cpp XMLFormatter::writeCharRef
params const XMLCh &toWrite
as XMLFormatter_writeCharRef_ch
call XMLString_binToText => XMLString_binToText_int
call formatBuf => STUB_formatBuf
throws XMLString_binToText_int
@*/
/*@extract src/xercesc/framework/XMLFormatter.cpp XMLFormatter::writeCharRef
params XMLSize_t toWrite
as XMLFormatter_writeCharRef_sz
call formatBuf => STUB_formatBuf
throws XMLString_sizeToText
@*/

void h_fmt_charref(void)
{
  XMLSize_t v; _Bool wide;
  VERIF_INPUT(v); VERIF_INPUT(wide);
  VERIF_ASSUME(wide || v <= 0xFFFF);
  verif_thrown = 0; CAP_calls = 0;

  if (wide) {
    XMLFormatter_writeCharRef_sz(v);
  } else {
    XMLCh c = (XMLCh)v;
    XMLFormatter_writeCharRef_ch(&c);
  }
  VERIF_CANARY("after call");

  __CPROVER_assert(!verif_thrown, "C12: writeCharRef never throws (text buffers are large enough)");
  __CPROVER_assert(CAP_calls == 1 && CAP_esc == XMLFormatter_NoEscapes && CAP_unrep == XMLFormatter_UnRep_Fail,
                   "C12: the reference text is written once, unescaped, and must be representable");
  unsigned nd = spec_hex_ndigits(v);
  __CPROVER_assert(CAP_n == 4 + (XMLSize_t)nd, "C12: length = &#x + digits without leading zeros + ;");
  __CPROVER_assert(CAP.a[0] == 0x26 && CAP.a[1] == 0x23 && CAP.a[2] == 0x78, "C12: reference starts with &#x");
  for (unsigned i = 0; i < nd && i < 16; i++)
    __CPROVER_assert(CAP.a[3 + i] == spec_hex_digit_upper((unsigned)((v >> (4 * (nd - 1 - i))) & 0xF)),
                     "C12: digits are the upper-case hexadecimal expansion, most significant first");
  __CPROVER_assert(CAP.a[3 + nd] == 0x3B, "C12: reference ends with ;");
  __CPROVER_assert(CAP_nul, "C01: the text is NUL-terminated behind the counted part");
  unsigned long long back = 0;
  int ok = spec_charref(CAP.a, CAP_n, &back);
  __CPROVER_assert(ok && back == v, "C12: parsing the reference back ([66] CharRef) yields the value written");
}
