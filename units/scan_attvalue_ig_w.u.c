//@ unit scan_attvalue_ig_w
//@ props C02 C03 C01
//@ kind W
//@ def quick NIN=5 NV=6
//@ def thorough NIN=9 NV=10
//@ cbmc all --unwind 13 --unwinding-assertions --arrays-uf-always
//@ timeout quick=600 thorough=1800
//@ entry h_scanAttValue
//@ note W: complete for every character sequence of length <= NIN without '&' (entity and character references are out of this unit's scope: scanEntityRef is not extractable; its stub is an unreachable assert)
//@ note single entity: the reader abstraction (contracts/scanner_reader2.inc) has a constant reader number and never throws EndOfEntityException; the try/catch of the function is translated (R14), not removed; emitError message arguments and binToText formatting are not modelled; the oracle for the delivered value is spec_attnorm (contracts/attnorm_common.inc); XMLAttDef::getType/isExternal are harness inputs over the DTD attribute types (CDATA .. enumeration); the standalone validity check (NoAttNormForStandalone) is recorded but not judged here
#define VERIF_DEFINE_GHOSTS
#include "verif_prelude.h"
//@ include attnorm_common.inc
//@ include scanner_reader2.inc
//@ include scanner_errs2.inc
//@ enum src/xercesc/internal/XMLScanner.hpp EntityExpRes - scope=XMLScanner
void *fMemoryManager;
static void XMLString_binToText(unsigned int v, XMLCh *buf, unsigned int maxc, unsigned int radix, void *mm) { buf[0] = 0; }
static int SC_scanEntityRef_p(bool inAtt, XMLCh *a, XMLCh *b, bool *esc) { __CPROVER_assert(0, "scanEntityRef is unreachable without '&' in the input"); return EntityExp_Failed; }
#define VA_emitError2(c, a) VA_emitError(c)
#define SC_scanEntityRef(inAtt, a, b, e) SC_scanEntityRef_p(inAtt, &(a), &(b), &(e))

/*@extract src/xercesc/internal/IGXMLScanner2.cpp IGXMLScanner::scanAttValue
ret false
method toFill.reset => XB_reset
method toFill.append => XB_append
sub* fReaderMgr\.skipIfQuote\( => RM_skipIfQuote(
sub* fReaderMgr\.getCurrentReaderNum\( => RM_getCurrentReaderNum(
sub* fReaderMgr\.getNextChar\( => RM_getNextChar(
sub* fReaderMgr\.getCurrentReader\(\)->isXMLChar\( => RD_isXMLChar(
sub* fReaderMgr\.getCurrentReader\(\)->isWhitespace\( => RD_isWhitespace(
sub* fReaderMgr\.lookingAtSpace\( => RM_lookingAtSpace(
sub* fValidator->emitError\( => VA_emitError2(
sub* attDef->getType\( => AD_getType(attDef
sub* attDef->isExternal\( => AD_isExternal(attDef
sub* \bStates\s+curState => enum States curState
sub* (?<![\w>])emitError\( => SC_emitErrorV(
sub* (?<![\w>])scanEntityRef\( => SC_scanEntityRef(
@*/
#define SC_ATTVALUE_CALL(def, name, out) IGXMLScanner_scanAttValue(def, name, out)
#define HAS_TYPE 1
//@ include scan_attvalue_harness.inc
