//@ unit cm_node_unary
//@ props C07 C08 C01
//@ kind L
//@ entry h_cm_node_unary
//@ note L: loop-free, complete: CMUnaryOp (constructor, calcFirstPos, calcLastPos, orphanChild) + the real CMNode base (constructor, getFirstPos / getLastPos lazy caching, isNullable, getType) for EVERY node type value, every child (any nullable flag, any first / last position sets over maxStates = 1..32 positions, sets cached or not)
//@ note obligation (XML 1.0 3.2.1 [47]-[48]: cp? matches zero or one, cp* zero or more, cp+ one or more occurrences; position automaton of the content model): the empty sequence matches a? and a* always and a+ iff it matches a; the first / last positions of a?, a*, a+ are those of a
//@ note model (contracts/cm_node.inc): CMStateSet = 32-bit word so that the code's own `=` / `|=` are set copy / union (real class: cm_stateset_ops); virtual dispatch = switch on the receiver's identity; `this` = THISNODE (base part) + SELF (derived part); maxStates <= 32
//@ note NOT in scope: buildSyntaxTree (how the nodes are combined, followpos), destructor
#define VERIF_DEFINE_GHOSTS
#include "verif_prelude.h"
//@ include cm_node.inc
//@ struct src/xercesc/validators/common/CMUnaryOp.hpp CMUnaryOp structs=CMNode

/*@extract src/xercesc/validators/common/CMUnaryOp.cpp CMUnaryOp::CMUnaryOp
sub (?<![\w.>:])CMNode\( => CMNode_CMNode(&THISNODE,
sub (?<![\w.>])fIsNullable\b => THISNODE.fIsNullable
method fChild->isNullable => CMNode_isNullable
@*/
/*@extract src/xercesc/validators/common/CMUnaryOp.cpp CMUnaryOp::calcFirstPos
method fChild->getFirstPos => *CMNode_getFirstPos
@*/
/*@extract src/xercesc/validators/common/CMUnaryOp.cpp CMUnaryOp::calcLastPos
method fChild->getLastPos => *CMNode_getLastPos
@*/
/*@extract src/xercesc/validators/common/CMUnaryOp.cpp CMUnaryOp::orphanChild
sub \bdelete\b => VERIF_DELETE
@*/

static void v_calcFirstPos(struct CMNode *self, CMStateSet *toSet) { if (self == &THISNODE) CMUnaryOp_calcFirstPos(toSet); else child_stub_calc(self, toSet, 0); }
static void v_calcLastPos(struct CMNode *self, CMStateSet *toSet)  { if (self == &THISNODE) CMUnaryOp_calcLastPos(toSet);  else child_stub_calc(self, toSet, 1); }

void h_cm_node_unary(void)
{
  int type; unsigned maxStates;
  VERIF_INPUT(type); VERIF_INPUT(maxStates); VERIF_INPUT(SELF);
  cm_node_setup_children(maxStates);
  CMUnaryOp_CMUnaryOp(type, &CHILD1, maxStates, (MemoryManager *)0);
  VERIF_CANARY("after constructor");
  if (type != ContentSpecNode_ZeroOrOne && type != ContentSpecNode_ZeroOrMore && type != ContentSpecNode_OneOrMore) {
    __CPROVER_assert(verif_thrown && verif_throw_type == VT_RuntimeException && verif_throw_code == XMLExcepts_CM_UnaryOpHadBinType, "C01: a unary node of any other type raises RuntimeException(CM_UnaryOpHadBinType)");
    return;
  }
  __CPROVER_assert(!verif_thrown, "C01: constructing a ?, * or + node does not throw");
  __CPROVER_assert(CMNode_getType(&THISNODE) == type && fChild == &CHILD1 && THISNODE.fMaxStates == maxStates && THISNODE.fFirstPos == 0 && THISNODE.fLastPos == 0, "C07/C08: the node records its type, child and state count; no position set yet");
  /* nullable: does the empty child sequence match? */
  int nullable_spec = (type == ContentSpecNode_OneOrMore) ? (CH1.nullable != 0) : 1;
  __CPROVER_assert((CMNode_isNullable(&THISNODE) != 0) == nullable_spec, "C07/C08: nullable(a?) = nullable(a*) = true, nullable(a+) = nullable(a)");
  CMStateSet *f = CMNode_getFirstPos(&THISNODE);
  CMStateSet *l = CMNode_getLastPos(&THISNODE);
  VERIF_CANARY("after getFirstPos/getLastPos");
  __CPROVER_assert(!verif_thrown && !SS_BADCOUNT, "C01: position sets are created with the node's state count, nothing throws");
  __CPROVER_assert(f == THISNODE.fFirstPos && l == THISNODE.fLastPos && f != l && f != CHILD1.fFirstPos && l != CHILD1.fLastPos, "C01: the node owns its two position sets (no aliasing with the child's sets, which die with the child)");
  __CPROVER_assert(*f == CH1.first, "C07/C08: firstpos(a?) = firstpos(a*) = firstpos(a+) = firstpos(a)");
  __CPROVER_assert(*l == CH1.last, "C07/C08: lastpos(a?) = lastpos(a*) = lastpos(a+) = lastpos(a)");
  __CPROVER_assert(CHILD1.fFirstPos != 0 && *CHILD1.fFirstPos == CH1.first && CHILD1.fLastPos != 0 && *CHILD1.fLastPos == CH1.last && (CHILD1.fIsNullable != 0) == (CH1.nullable != 0), "C07/C08: the child's own sets and flag are unchanged");
  /* buildSyntaxTree: fault in both sets, THEN orphanChild(); later readers get the cached sets */
  CMUnaryOp_orphanChild();
  __CPROVER_assert(fChild == 0 && N_DELETED == 1, "C01: orphanChild releases the child exactly once and forgets it");
  int ncalc = N_CHILD_CALC; unsigned nsets = SS_USED;
  __CPROVER_assert(CMNode_getFirstPos(&THISNODE) == f && CMNode_getLastPos(&THISNODE) == l && *f == CH1.first && *l == CH1.last && N_CHILD_CALC == ncalc && SS_USED == nsets && !verif_thrown,
                   "C07/C08: after orphanChild the cached position sets are returned unchanged, the (deleted) child is not consulted again");
  __CPROVER_assert((CMNode_isNullable(&THISNODE) != 0) == nullable_spec, "C07/C08: nullable is unchanged by orphanChild");
}
