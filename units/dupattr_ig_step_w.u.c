//@ unit dupattr_ig_step_w
//@ props C02 C06 C03
//@ kind W
//@ def quick NATT=4
//@ def thorough NATT=6
//@ cbmc all --unwind 8 --unwinding-assertions
//@ entry h_dupattr_step
//@ note fragment of IGXMLScanner::buildAttList: ONE iteration of the provided-attribute loop, from the namespace-level duplicate check to `retCount++`, verified as a step function under the invariant "the hash registry holds exactly the (local part, uri) keys of toFill[0..retCount)"; complete for lists of <= NATT entries in both modes
//@ note names are ids (two names are equal iff the ids are equal): suffPtr = local part, namePtr = QName, prefPtr = prefix are distinct inputs; XMLAttr creation/set/setSpecified (model of XMLAttr: ctor sets the specified flag, set() leaves it), the registry, psviAttr and emitError are trusted stubs
#define VERIF_DEFINE_GHOSTS
#include "verif_prelude.h"
//@ include dupattr_common.inc
enum { Grammar_DTDGrammarType = 1, Grammar_SchemaGrammarType = 2 };
int fGrammarType;
static bool ST_equalsId(int a, int b) { return a == b; }
/* XMLAttr model: the constructor sets fSpecified from its argument, XMLAttr::set() leaves it alone (src/xercesc/framework/XMLAttr.cpp) */
static XMLAttr* AT_new(XMLSize_t idx, unsigned int uri, int name, bool specified) { ATTS.a[idx].uri = uri; ATTS.a[idx].name = name; ATTS.a[idx].specified = specified; return &ATTS.a[idx]; }
static void AT_set(XMLAttr *a, unsigned int uri, int name) { a->uri = uri; a->name = name; }
static void AT_setSpecified(XMLAttr *a, bool v) { a->specified = v; }

/*@extract src/xercesc/internal/IGXMLScanner2.cpp IGXMLScanner::buildAttList
as IG_dupstep
fragment if \(fGrammarType == Grammar::DTDGrammarType\) \{\s*if \(!toUseHashTable\) ||| retCount\+\+;
sig void IG_dupstep(XMLSize_t* retCount_p, XMLSize_t curAttListSize, bool toUseHashTable, unsigned int uriId, int suffPtr, int namePtr, int prefPtr)
pre
#define retCount (*retCount_p)
static XMLAttr* curAttr;   /* declared before the fragment in the real function */
end
sub curAttr = toFill\.elementAt\(attrIndex\); => curAttr = AL_elementAt(attrIndex);
sub XMLString::equals\((\w+), curAttr->getName\(\)\) => ST_equalsId(\1, curAttr->name)
sub curAttr->getURIId\(\) => curAttr->uri
sub emitError\s*\(\s*XMLErrs::AttrAlreadyUsedInSTag\s*,[^;]*\); => SC_dupError();
sub fAttrDupChkRegistry->containsKey\(\(void\*\)(\w+), (\w+)\) => REG_contains(\1, \2)
sub new \(fMemoryManager\) XMLAttr\s*\(\s*(\w+)\s*,\s*(\w+)\s*,\s*(\w+)\s*,\s*([^,]+),\s*(\w+)\s*,\s*(\w+)\s*,\s*fMemoryManager\s*\) => AT_new(retCount, \1, \2, \6)
sub* toFill\.addElement\(curAttr\); =>
sub toFill\.elementAt\(retCount\) => AL_elementAt(retCount)
sub curAttr->set\s*\(\s*(\w+)\s*, (\w+)[^;]*\); => AT_set(curAttr, \1, \2);
sub* curAttr->setSpecified\( => AT_setSpecified(curAttr, 
sub fAttrDupChkRegistry->put\(\(void\*\)(\w+), (\w+), curAttr\) => REG_put(\1, \2)
sub if\(psviAttr\)\s*psviAttr->setValue\(curAttr->getValue\(\)\); =>
@*/
#undef retCount

void h_dupattr_step(void)
{
  XMLSize_t n, cap; unsigned int uri; int local, qname, prefix;
  VERIF_INPUT(ATTS); VERIF_INPUT(n); VERIF_INPUT(cap); VERIF_INPUT(USE_HASH); VERIF_INPUT(uri); VERIF_INPUT(local); VERIF_INPUT(qname); VERIF_INPUT(prefix);
  VERIF_INPUT(fGrammarType);
  VERIF_ASSUME(n < NATT && cap <= NATT);
  VERIF_ASSUME(fGrammarType == Grammar_DTDGrammarType);   /* the namespace-level check in this function is the DTD path; the schema path checks elsewhere */
  VERIF_ASSUME(qname != local);                            /* a prefixed attribute: its QName is not its local part */
  /* invariant on entry: registry == keys of the list built so far (hashed mode) */
  REGN = 0; if (USE_HASH) for (XMLSize_t k = 0; k < NATT; k++) if (k < n) REG_put(ATTS.a[k].name, ATTS.a[k].uri);
  DUP_ERRORS = 0; verif_thrown = 0;
  int dup = 0; for (XMLSize_t k = 0; k < NATT; k++) if (k < n && ATTS.a[k].uri == uri && ATTS.a[k].name == local) dup = 1;
  XMLSize_t cnt = n;
  IG_dupstep(&cnt, cap, USE_HASH, uri, local, qname, prefix);
  VERIF_CANARY("after step");
  __CPROVER_assert((DUP_ERRORS >= 1) == (dup != 0), "C02/C06: AttrAlreadyUsedInSTag is reported iff an earlier attribute has the same expanded name (pairwise and hashed mode)");
  __CPROVER_assert(cnt == n + 1 && ATTS.a[n].uri == uri && ATTS.a[n].name == local, "C06: the attribute is stored under its local part and namespace id");
  __CPROVER_assert(ATTS.a[n].specified, "C03: an attribute written in the start tag is reported as specified, also when its XMLAttr slot is a reused one");
  if (USE_HASH) __CPROVER_assert(REG_contains(local, uri), "C02: invariant re-established: the registry is keyed by (local part, uri) of every stored attribute");
}
