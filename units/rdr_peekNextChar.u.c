//@ unit rdr_peekNextChar
//@ props C03 C04 C01
//@ kind L
//@ def all kCharBufSize=4
//@ rebind src/xercesc/internal/XMLReader.hpp kCharBufSize
//@ enforce XMLReader_peekNextChar
//@ replace XMLReader_refreshCharBuffer
//@ entry h_peekNextChar
//@ note spec/eol.h is written from XML 1.0 5th ed. 2.11 and XML 1.1 2nd ed. 2.11; its parameter r11 ("the 1.1 rule set applies") is instantiated with fNEL, which xerces also sets for 1.0 documents under the non-standard enableNELWS option
//@ note refreshCharBuffer is replaced by the contract proved in unit rdr_refreshCharBuffer; the calls go through the ghost shim of contracts/XMLReader_refill_obs.inc, which records what each refill returned and delivered
#define VERIF_DEFINE_GHOSTS
#include "verif_prelude.h"
#include "eol.h"
//@ enum src/xercesc/internal/XMLReader.hpp Sources - scope=XMLReader
//@ struct src/xercesc/internal/XMLReader.hpp XMLReader only=auto enums=Sources
//@ include XMLReader_ri.inc
//@ include XMLReader_refill_obs.inc
#define EXT (fSource == Source_External)
#define O_IDX  __CPROVER_old(fCharIndex)
#define O_AV   __CPROVER_old(fCharsAvail)
#define O_B0   __CPROVER_old(fCharBuf[(fCharIndex < kCharBufSize) ? fCharIndex : 0])
#define HAD0   (O_IDX < O_AV)
#define U0     ((XMLCh)(HAD0 ? O_B0 : RF1_C0))
#define GOT0   (HAD0 || (RF_N >= 1 && RF1_RET))

/*@extract src/xercesc/internal/XMLReader.hpp XMLReader::peekNextChar
ret false
call refreshCharBuffer => XMLReader_refreshCharBuffer_obs
throws XMLReader_refreshCharBuffer_obs
contract
__CPROVER_requires(RI_RDR && !verif_thrown && G == 0 && RF_N == 0 && kCharBufSize >= 2)
__CPROVER_requires(__CPROVER_w_ok(chGotten_p, sizeof(*chGotten_p)))
__CPROVER_assigns(*chGotten_p, fCharIndex, fCharsAvail, fNoMore, __CPROVER_object_upto(fCharBuf, sizeof(fCharBuf)), RF_GHOSTS, verif_thrown, verif_throw_type, verif_throw_code)
/* C01 */
__CPROVER_ensures(RI_RDR && (verif_thrown ==> !__CPROVER_return_value))
/* a refill is attempted iff there is no spare character */
__CPROVER_ensures(RF_N == (HAD0 ? 0 : 1))
__CPROVER_ensures(!verif_thrown ==> __CPROVER_return_value == GOT0)
/* C03 2.11: what is shown is what getNextChar would deliver for U[0] */
__CPROVER_ensures((!verif_thrown && __CPROVER_return_value) ==> *chGotten_p == SPEC_EOL_OUT(U0, EXT, fNEL))
__CPROVER_ensures((!verif_thrown && !__CPROVER_return_value) ==> (*chGotten_p == 0 && fCharIndex == fCharsAvail))
/* C04: nothing is consumed -- the unread sequence still starts at U[0], wherever it now sits (line/column are not in the frame at all) */
__CPROVER_ensures((!verif_thrown && HAD0) ==> (fCharIndex == O_IDX && fCharsAvail == O_AV))
__CPROVER_ensures((!verif_thrown && !HAD0 && GOT0) ==> (fCharIndex == 0 && fCharsAvail == RF1_AVAIL && fCharsAvail >= 1 && fCharBuf[0] == RF1_C0))
@*/

XMLCh CH;
void h_peekNextChar(void)
{
  VERIF_INPUT(SELF);
  VERIF_INPUT(CH);
  verif_thrown = 0; RF_N = 0;
  XMLReader_peekNextChar(&CH);
  VERIF_CANARY("after call");
}
