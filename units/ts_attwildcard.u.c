//@ unit ts_attwildcard
//@ props C08
//@ kind L
//@ entry h_attwildcard
//@ note L: loop-free; fragment of TraverseSchema::processAttributes (from the base type's attribute wildcard to the attribute wildcard set on the new complex type), verified as a function of its own over every combination of: derivation method, base = anyType or a user type with / without a wildcard, local (complete) wildcard present / absent; wildcards are namespace sets over 5 bits plus a processContents value
//@ note spec (XML Schema Structures 3.4.2, {attribute wildcard} of a complex type definition): restriction -> the local complete wildcard, absent if there is none (a wildcard of the base is NOT inherited: what is not restated is gone); extension -> the base wildcard if there is no local one, the local one if the base has none, otherwise their union with the local processContents; the base wildcard of anyType is ##any / lax
//@ note trusted stubs: SchemaAttDef is a record (namespace set, processContents, type); attWildCardUnion is set union (its arithmetic on namespace lists is outside the fragment); copy construction copies; janitors (ownership) are dropped by rewrite rules
#define VERIF_DEFINE_GHOSTS
#include "verif_prelude.h"
//@ enum src/xercesc/framework/XMLAttDef.hpp DefAttTypes XMLAttDef_ scope=XMLAttDef
//@ enum src/xercesc/framework/XMLAttDef.hpp AttTypes XMLAttDef_ scope=XMLAttDef
enum { SchemaSymbols_XSD_EXTENSION = 2, SchemaSymbols_XSD_RESTRICTION = 4 };   /* only compared with each other here */
typedef struct SchemaAttDef { int set; int defType; int type; } SchemaAttDef;
typedef struct ComplexTypeInfo { SchemaAttDef *wild; } ComplexTypeInfo;
typedef int XMLAttDef_DefAttTypes;
SchemaAttDef LOCAL_WC, BASE_WC, NEW_A, NEW_B; int NEWS;
ComplexTypeInfo BASE_T, NEW_T; SchemaAttDef *SET_WC; int SETS, ERRS;
static SchemaAttDef* CT_getAttWildCard(ComplexTypeInfo *t) { return t->wild; }
static void CT_setAttWildCard(ComplexTypeInfo *t, SchemaAttDef *w) { t->wild = w; SET_WC = w; SETS++; }
static SchemaAttDef* WC_newAny(void) { SchemaAttDef *r = NEWS ? &NEW_B : &NEW_A; NEWS++; r->set = 31; r->defType = XMLAttDef_ProcessContents_Lax; r->type = XMLAttDef_Any_Any; return r; }
static SchemaAttDef* WC_copy(const SchemaAttDef *o) { SchemaAttDef *r = NEWS ? &NEW_B : &NEW_A; NEWS++; *r = *o; return r; }
static void TS_attWildCardUnion(SchemaAttDef *a, const SchemaAttDef *b) { a->set |= b->set; if (a->set == 31) a->type = XMLAttDef_Any_Any; }
static int WC_getDefaultType(const SchemaAttDef *w) { return w->defType; }
static void WC_setDefaultType(SchemaAttDef *w, int t) { w->defType = t; }
static int WC_getType(const SchemaAttDef *w) { return w->type; }
#define TS_reportSchemaError(...) (ERRS++)

/*@extract src/xercesc/validators/schema/TraverseSchema.cpp TraverseSchema::processAttributes
as TS_attwildcard
fragment SchemaAttDef\*\s+baseAttWildCard\s*= ||| (?=\s*bool baseWithAttributes)
sig void TS_attwildcard(ComplexTypeInfo *baseTypeInfo, ComplexTypeInfo *typeInfo, SchemaAttDef *attWildCard, int derivedBy, bool isBaseAnyType)
sub* Janitor<SchemaAttDef>\s+\w+\(0\); => ;
sub* \w+\.(reset|orphan)\([^;]*\); => ;
sub* new \(fGrammarPoolMemoryManager\) SchemaAttDef\(XMLUni::fgZeroLenString,[^;]*fGrammarPoolMemoryManager\) => WC_newAny()
sub* new \(fGrammarPoolMemoryManager\) SchemaAttDef\((\w+)\) => WC_copy(\1)
sub* (\w+)->getAttWildCard\(\) => CT_getAttWildCard(\1)
sub* (\w+)->setAttWildCard\( => CT_setAttWildCard(\1, 
sub* (\w+)->getDefaultType\(\) => WC_getDefaultType(\1)
sub* (\w+)->setDefaultType\( => WC_setDefaultType(\1, 
sub* (\w+)->getType\(\) => WC_getType(\1)
sub* XMLAttDef::DefAttTypes\s+saveDefType => int saveDefType
sub* (?<![\w>])attWildCardUnion\( => TS_attWildCardUnion(
sub* (?<![\w>])reportSchemaError\( => TS_reportSchemaError(
sub* SchemaSymbols::XSD_ => SchemaSymbols_XSD_
sub* XMLAttDef::(\w+) => XMLAttDef_\1
@*/

void h_attwildcard(void)
{
  unsigned char ext, anyb, haveLocal, haveBase;
  VERIF_INPUT(ext); VERIF_INPUT(anyb); VERIF_INPUT(haveLocal); VERIF_INPUT(haveBase); VERIF_INPUT(LOCAL_WC); VERIF_INPUT(BASE_WC);
  VERIF_ASSUME((LOCAL_WC.set & ~31) == 0 && LOCAL_WC.set != 0 && (BASE_WC.set & ~31) == 0 && BASE_WC.set != 0);
  VERIF_ASSUME(LOCAL_WC.defType >= XMLAttDef_ProcessContents_Skip && LOCAL_WC.defType <= XMLAttDef_ProcessContents_Strict);
  VERIF_ASSUME(BASE_WC.defType >= XMLAttDef_ProcessContents_Skip && BASE_WC.defType <= XMLAttDef_ProcessContents_Strict);
  VERIF_ASSUME(LOCAL_WC.type != XMLAttDef_AttTypes_Unknown && BASE_WC.type != XMLAttDef_AttTypes_Unknown);
  int extension = ext & 1, baseAny = anyb & 1, hl = haveLocal & 1, hb = (haveBase & 1) && !baseAny;     /* anyType carries no stored wildcard: it is made on the spot */
  int local_set = LOCAL_WC.set, local_pc = LOCAL_WC.defType, base_set = baseAny ? 31 : BASE_WC.set, base_pc = baseAny ? XMLAttDef_ProcessContents_Lax : BASE_WC.defType;
  BASE_T.wild = hb ? &BASE_WC : (SchemaAttDef*)0; NEW_T.wild = 0; SET_WC = 0; SETS = 0; NEWS = 0; ERRS = 0; verif_thrown = 0;
  TS_attwildcard(&BASE_T, &NEW_T, hl ? &LOCAL_WC : (SchemaAttDef*)0, extension ? SchemaSymbols_XSD_EXTENSION : SchemaSymbols_XSD_RESTRICTION, baseAny != 0);
  VERIF_CANARY("after fragment");
  int baseHas = extension && (hb || baseAny);
  __CPROVER_assert(!verif_thrown && SETS <= 1, "C08: the attribute wildcard is set at most once");
  if (!hl && !baseHas) {
    if (!extension && (hb || baseAny)) { VERIF_CANARY("restriction that does not restate the wildcard: reachable"); }
    __CPROVER_assert(NEW_T.wild == 0, "C08: a type without a local wildcard has none, unless it EXTENDS a base that has one (a restriction does not inherit the base's wildcard)");
  } else {
    __CPROVER_assert(NEW_T.wild != 0, "C08: the type gets an attribute wildcard");
    if (NEW_T.wild != 0) {
      int want_set = hl ? (baseHas ? (local_set | base_set) : local_set) : base_set;
      int want_pc = hl ? local_pc : base_pc;
      __CPROVER_assert(NEW_T.wild->set == want_set, "C08: extension unites the local and the base wildcard; restriction keeps the local one only");
      __CPROVER_assert(NEW_T.wild->defType == want_pc, "C08: processContents is the local wildcard's (the base's when there is no local one)");
      __CPROVER_assert(hb ? NEW_T.wild != &BASE_WC : 1, "C01: the new type does not share the base type's wildcard object (each type deletes its own)");
    }
  }
  __CPROVER_assert(hb ? (BASE_WC.set == base_set && BASE_WC.defType == base_pc) : 1, "C08: the base type's wildcard is not modified");
}
