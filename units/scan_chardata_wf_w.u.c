//@ unit scan_chardata_wf_w
//@ props C02 C03 C01
//@ kind W
//@ def quick NIN=5
//@ def thorough NIN=7
//@ cbmc all --unwind 10 --unwinding-assertions --arrays-uf-always
//@ timeout quick=600 thorough=1800
//@ entry h_scanCharData
//@ note W: complete for every character sequence of length <= NIN without '&' (entity and character references are out of this unit's scope: scanEntityRef is not extractable)
//@ note WFXMLScanner version; single entity only: the try/catch for EndOfEntityException and the ThrowEOEJanitor are removed by sub rules (the reader abstraction never crosses an entity boundary); sendCharData is a sink stub that accumulates the text; reader abstraction, emitError and buffers are trusted stubs (contracts/scanner_stubs.inc)
#define VERIF_DEFINE_GHOSTS
#include "verif_prelude.h"
//@ include scanner_stubs.inc
typedef struct XMLBuffer { char o; } XMLBuffer;
enum { EntityExp_Failed, EntityExp_Pushed, EntityExp_Returned };
static int SC_scanEntityRef(bool inAtt, XMLCh *a, XMLCh *b, bool *esc) { __CPROVER_assert(0, "scanEntityRef is unreachable without '&' in the input"); return EntityExp_Failed; }
struct { XMLCh a[NIN + 2]; } ACC; XMLSize_t ACCLEN;
static void SC_sendCharData(void) { for (XMLSize_t k = 0; k < NIN + 1; k++) if (k < OUTLEN && ACCLEN < NIN + 1) ACC.a[ACCLEN++] = OUT.a[k]; if (OUTLEN) DOC_EVENTS++; OUTLEN = 0; }

/*@extract src/xercesc/internal/WFXMLScanner.cpp WFXMLScanner::scanCharData
sub \bStates\s+curState => enum States curState
sub ThrowEOEJanitor jan\(&fReaderMgr, true\); =>
sub ThrowEOEJanitor jan\(&fReaderMgr, false\); =>
sub \btry\s*\{ => {
sub catch\s*\(const EndOfEntityException& toCatch\)\s*\{[^{}]*\} =>
sub toUse\.reset\(\) => XB_reset()
sub toUse\.append\( => XB_append(
sub fReaderMgr\.movePlainContentChars\(toUse\) => RM_movePlainContentChars()
sub fReaderMgr\.getNextCharIfNot\(chOpenAngle, nextCh\) => RM_getNextCharIfNot(chOpenAngle, &nextCh)
sub fReaderMgr\.getCurrentReader\(\)->isXMLChar\( => RD_isXMLChar(
sub scanEntityRef\(false, nextCh, secondCh, escaped\) => SC_scanEntityRef(false, &nextCh, &secondCh, &escaped)
sub sendCharData\(toUse\) => SC_sendCharData()
sub XMLCh tmpBuf\[9\];\s*XMLString::binToText\s*\([^;]*\); =>
sub emitError\(XMLErrs::InvalidCharacter, tmpBuf\) => SC_emitError(XMLErrs::InvalidCharacter)
sub (?<!SC_)emitError\( => SC_emitError(
@*/

/* spec: XML 1.0 [14] CharData ::= [^<&]* - ([^<&]* ']]>' [^<&]*) ; every character a Char (surrogates only as pairs); scanning stops before '<' or at end of input */
XMLBuffer TOUSE;
void h_scanCharData(void)
{
  VERIF_INPUT(INPUT); VERIF_INPUT(LEN); VERIF_INPUT(XMLCHAR_T); VERIF_INPUT(PLAINCH_T);
  VERIF_ASSUME(LEN <= NIN);
  for (XMLSize_t k = 0; k < NIN; k++) {
    VERIF_ASSUME(k >= LEN || (INPUT.a[k] != 0 && INPUT.a[k] != '&'));
    /* facts about the real tables (chartab_*): PlainContent = Char minus { CR, LF, '<', '&', ']' }, no surrogates */
    if (k < LEN) { XMLCh c = INPUT.a[k]; VERIF_ASSUME(!PLAINCH[c] || (XMLCHAR[c] && c != '<' && c != '&' && c != ']' && !(c >= 0xD800 && c <= 0xDFFF))); }
  }
  VERIF_ASSUME(XMLCHAR[']'] && XMLCHAR['>']);
  assume_surrogates_not_char();
  POS = 0; ERR_COUNT = 0; ERR_FATAL_COUNT = 0; DOC_EVENTS = 0; OUT_OVERFLOW = 0; OUTLEN = 3; ACCLEN = 0; verif_thrown = 0;
  WFXMLScanner_scanCharData(&TOUSE);
  VERIF_CANARY("after call");

  XMLSize_t i = 0, dlen = 0; int wf = 1;
  XMLCh data[NIN + 1];
  while (i < LEN && INPUT.a[i] != '<') {
    XMLCh c = INPUT.a[i];
    if (c == ']' && i + 2 < LEN && INPUT.a[i + 1] == ']' && INPUT.a[i + 2] == '>') wf = 0;
    if (c >= 0xD800 && c <= 0xDBFF) {
      if (i + 1 < LEN && INPUT.a[i + 1] >= 0xDC00 && INPUT.a[i + 1] <= 0xDFFF) { data[dlen++] = c; data[dlen++] = INPUT.a[i + 1]; i += 2; continue; }
      wf = 0;
    } else if ((c >= 0xDC00 && c <= 0xDFFF) || !XMLCHAR[c]) wf = 0;
    data[dlen++] = c; i++;
  }
  __CPROVER_assert(!verif_thrown, "C01: no exception in plain character data");
  __CPROVER_assert(POS == i, "C03: character data is consumed exactly up to the next '<' (or the end of input)");
  __CPROVER_assert(ACCLEN == dlen && OUTLEN == 0, "C03: all character data is flushed to the handler, nothing more");
  for (XMLSize_t k = 0; k < NIN; k++) if (k < dlen && k < ACCLEN) __CPROVER_assert(ACC.a[k] == data[k], "C03: character data delivered exactly");
  if (wf) __CPROVER_assert(ERR_COUNT == 0, "C02: well-formed character data is accepted without error");
  else    __CPROVER_assert(ERR_FATAL_COUNT >= 1, "C02: ']]>' in character data, an illegal character or a broken surrogate pair raises a fatal error");
  __CPROVER_assert(!OUT_OVERFLOW && POS <= LEN, "C01: buffers and reader position in range");
}
