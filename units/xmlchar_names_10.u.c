//@ unit xmlchar_names_10
//@ props C02 C01
//@ kind W
//@ def quick N=5
//@ def thorough N=8
//@ cbmc all --unwind 11 --unwinding-assertions --arrays-uf-always
//@ entry h_xmlchar_names_10
//@ note W: complete for every UTF-16 string of length <= N followed by a NUL (every call site passes a NUL-terminated string or a suffix of one, with count = its length); loops fully unwound, unwinding assertions on
//@ note the 64K class table is ARBITRARY here, constrained only at the characters of the input string by the statement proved for ALL characters in unit chartab_10 (name / NCName / S bits <=> the productions); assume-guarantee, no other assumption
//@ note XML 1.0 Fifth Edition admits #x10000-#xEFFFF in names; the obligations are split into "BMP-only strings" and "strings containing surrogate code units" so that a deviation on the latter is visible on its own
#define VERIF_DEFINE_GHOSTS
#include "verif_prelude.h"
#include "xmlchars.h"

//@ table src/xercesc/util/XMLChar.hpp gNCNameCharMask
//@ table src/xercesc/util/XMLChar.hpp gFirstNameCharMask
//@ table src/xercesc/util/XMLChar.hpp gNameCharMask
//@ table src/xercesc/util/XMLChar.hpp gWhitespaceCharMask

struct { XMLByte a[0x10000]; } T10;
#define fgCharCharsTable1_0 (T10.a)
#define BIT(c, m) (((T10.a[c]) & (m)) != 0)
/* the theorem of unit chartab_10 instantiated at one character */
#define LEMMA10(c) (BIT(c, gFirstNameCharMask) == spec_xml_NameStartChar(c) && BIT(c, gNameCharMask) == spec_xml_NameChar(c) && \
                    BIT(c, gNCNameCharMask) == spec_xml_NCNameChar(c) && BIT(c, gWhitespaceCharMask) == spec_xml_S(c))

/*@extract src/xercesc/util/XMLChar.cpp XMLChar1_0::isAllSpaces
@*/
/*@extract src/xercesc/util/XMLChar.cpp XMLChar1_0::containsWhiteSpace
@*/
/*@extract src/xercesc/util/XMLChar.cpp XMLChar1_0::isValidNCName
@*/
/*@extract src/xercesc/util/XMLChar.cpp XMLChar1_0::isValidNmtoken
@*/
/*@extract src/xercesc/util/XMLChar.cpp XMLChar1_0::isValidName
pick 1
@*/
/*@extract src/xercesc/util/XMLChar.cpp XMLChar1_0::isValidName
pick 2
as XMLChar1_0_isValidName_z
@*/
/*@extract src/xercesc/util/XMLChar.cpp XMLChar1_0::isValidQName
call isValidNCName => XMLChar1_0_isValidNCName
@*/

struct { XMLCh a[N + 1]; } STR;

void h_xmlchar_names_10(void)
{
  XMLSize_t n;
  VERIF_INPUT(T10); VERIF_INPUT(STR); VERIF_INPUT(n);
  VERIF_ASSUME(n <= N);
  VERIF_ASSUME(STR.a[N] == 0);
  _Bool has_sur = 0, has_nul = 0;
  for (XMLSize_t i = 0; i <= N; i++) {
    VERIF_ASSUME(LEMMA10(STR.a[i]));
    if (i >= N - n && i < N) {
      if (STR.a[i] >= 0xD800 && STR.a[i] <= 0xDFFF) has_sur = 1;
      if (STR.a[i] == 0) has_nul = 1;
    }
  }
  const XMLCh *s = STR.a + (N - n);     /* end-aligned: s[n] is the NUL, s[n+1] is outside the object */

  _Bool r_name = XMLChar1_0_isValidName(s, n);
  _Bool r_ncname = XMLChar1_0_isValidNCName(s, n);
  _Bool r_qname = XMLChar1_0_isValidQName(s, n);
  _Bool r_nmtoken = XMLChar1_0_isValidNmtoken(s, n);
  _Bool r_allsp = XMLChar1_0_isAllSpaces(s, n);
  _Bool r_hassp = XMLChar1_0_containsWhiteSpace(s, n);
  _Bool r_name_z = XMLChar1_0_isValidName_z(s);
  VERIF_CANARY("after call");

  __CPROVER_assert(r_allsp == spec_xml_all_S(s, n), "C02: XMLChar1_0::isAllSpaces <=> the string matches [3] S");
  __CPROVER_assert(r_hassp == spec_xml_contains_S(s, n), "C02: XMLChar1_0::containsWhiteSpace <=> some character is in [3] S");
  if (!has_sur) {
    __CPROVER_assert(r_name == spec_xml_is_name(s, n, 0), "C02: XMLChar1_0::isValidName(s,n) <=> [5] Name (BMP-only strings)");
    __CPROVER_assert(r_ncname == spec_xml_is_name(s, n, 1), "C02: XMLChar1_0::isValidNCName <=> NCName (BMP-only strings)");
    __CPROVER_assert(r_qname == spec_xml_is_qname(s, n), "C02: XMLChar1_0::isValidQName <=> QName (BMP-only strings)");
    __CPROVER_assert(r_nmtoken == spec_xml_is_name(s, n, 2), "C02: XMLChar1_0::isValidNmtoken <=> [7] Nmtoken (BMP-only strings)");
    if (!has_nul) __CPROVER_assert(r_name_z == spec_xml_is_name(s, n, 0), "C02: XMLChar1_0::isValidName(s) <=> [5] Name (BMP-only strings)");
  } else {
    __CPROVER_assert(r_name == spec_xml_is_name(s, n, 0), "C02: XMLChar1_0::isValidName(s,n) <=> [5] Name (strings with surrogate code units; 5th ed. admits #x10000-#xEFFFF)");
    __CPROVER_assert(r_ncname == spec_xml_is_name(s, n, 1), "C02: XMLChar1_0::isValidNCName <=> NCName (strings with surrogate code units)");
    __CPROVER_assert(r_qname == spec_xml_is_qname(s, n), "C02: XMLChar1_0::isValidQName <=> QName (strings with surrogate code units)");
    __CPROVER_assert(r_nmtoken == spec_xml_is_name(s, n, 2), "C02: XMLChar1_0::isValidNmtoken <=> [7] Nmtoken (strings with surrogate code units)");
    if (!has_nul) __CPROVER_assert(r_name_z == spec_xml_is_name(s, n, 0), "C02: XMLChar1_0::isValidName(s) <=> [5] Name (strings with surrogate code units)");
  }
}
