//@ unit dt_fquot
//@ props C09
//@ kind L
//@ def quick AB=1048576
//@ def thorough AB=2147483647
//@ timeout thorough=3000
//@ entry h_dt_fquot
//@ note L: loop-free. fQuotient(a,b)/mod(a,b,q) for the divisors the call sites use (12, 24, 60): quick tier |a| <= 2^20 (stated bound, SAT cost of 32-bit dividers), thorough tier every int a. A symbolic divisor 1..64 with |a| <= 4096 is checked for the Euclidean identity only.
//@ note div() is modelled per ISO C99 7.20.6.2 (spec/gregorian.h)
//@ note the code's fQuotient truncates toward zero where Appendix E asks for floor; every call site compensates with `if (r < 0) { r += b; carry--; }` (checked in dt_normalize). Proved here: a == q*b + r, |r| < b with the sign of a, equality with Appendix E for a >= 0, and compensated pair = Appendix E pair for every a.
#define VERIF_DEFINE_GHOSTS
#define SPEC_NEED_DIV_MODEL
#include "verif_prelude.h"
#include "gregorian.h"

/*@extract src/xercesc/util/XMLDateTime.cpp fQuotient
as fQuotient2
pick 1
static
@*/
/*@extract src/xercesc/util/XMLDateTime.cpp mod
static
@*/

/* one independent dividend per divisor: cbmc decides independent sub-formulas much faster than three dividers on one input */
#define CHECK_DIV(a, B) { \
    int q = fQuotient2(a, B); \
    int r = mod(a, B, q); \
    __CPROVER_assert((spec_int)q * B + r == a, "C09: fQuotient/mod: a == q*b + r"); \
    __CPROVER_assert(-B < r && r < B && (r == 0 || (r < 0) == (a < 0)), "C09: fQuotient/mod: |r| < b, remainder has the sign of the dividend (C99 div)"); \
    if (a >= 0) { __CPROVER_assert(q == spec_fquot(a, B) && r == spec_modulo(a, B), "C09: fQuotient/mod = Appendix E fQuotient/modulo for a >= 0"); } \
    __CPROVER_assert(((r < 0) ? q - 1 : q) == spec_fquot(a, B) && ((r < 0) ? r + B : r) == spec_modulo(a, B), \
                     "C09: compensated (q,r) = Appendix E (floor) pair for every dividend"); }

void h_dt_fquot(void)
{
  int a12, a24, a60, a, b;
  VERIF_INPUT(a12); VERIF_INPUT(a24); VERIF_INPUT(a60); VERIF_INPUT(a); VERIF_INPUT(b);
  verif_thrown = 0;
  VERIF_ASSUME(a12 >= -AB && a12 <= AB);
  VERIF_ASSUME(a24 >= -AB && a24 <= AB);
  VERIF_ASSUME(a60 >= -AB && a60 <= AB);
  CHECK_DIV(a12, 12)
  CHECK_DIV(a24, 24)
  CHECK_DIV(a60, 60)
  VERIF_ASSUME(b >= 1 && b <= 64 && a >= -4096 && a <= 4096);
  {
    int q = fQuotient2(a, b);
    int r = mod(a, b, q);
    __CPROVER_assert(q * b + r == a && -b < r && r < b, "C09: fQuotient/mod: Euclidean identity, symbolic divisor (bounded)");
  }
  VERIF_CANARY("after call");
}
