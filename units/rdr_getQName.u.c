//@ unit rdr_getQName
//@ props C01 C04 C03
//@ kind L
//@ def all kCharBufSize=8
//@ rebind src/xercesc/internal/XMLReader.hpp kCharBufSize
//@ enforce XMLReader_getQName
//@ replace XMLReader_getNCName
//@ replace XMLReader_refreshCharBuffer
//@ replace XMLBuffer_append_1
//@ replace XMLBuffer_getLen
//@ cbmc all --arrays-uf-always
//@ entry h_getQName
//@ note loop-free: getNCName is replaced by the contract proved in unit rdr_getNCName (same text: contracts/XMLReader_getNCName.contract.inc), refreshCharBuffer by the one proved in rdr_refreshCharBuffer
//@ note column/length delta equality is checked modulo 2^8 only (SAT cost of 64-bit linear arithmetic)
//@ note abstract XMLBuffer: length assumed <= 2^40 characters (machine arithmetic; OutOfMemory not modelled); the colon-position claim is stated for buffers of at most INT_MAX characters (the code casts the length to int)
#define VERIF_DEFINE_GHOSTS
#include "verif_prelude.h"
//@ struct src/xercesc/internal/XMLReader.hpp XMLReader only=auto
//@ include XMLReader_ri.inc
//@ include XMLBuffer_abs.inc

_Bool NCNAMECH[65536];
#define PRED_ncnamechar(c) (NCNAMECH[(XMLCh)(c)])
#define IS_LEAD_NAME(c)  ((c) >= 0xD800 && (c) <= 0xDB7F)
#define IS_TRAIL(c)      ((c) >= 0xDC00 && (c) <= 0xDFFF)
#define IS_SURR(c)       ((c) >= 0xD800 && (c) <= 0xDFFF)

//@ include XMLBuffer_abs1.inc

/*@extract src/xercesc/internal/XMLReader.cpp XMLReader::getNCName
declonly
contract
//@ include XMLReader_getNCName.contract.inc
@*/

/*@extract src/xercesc/internal/XMLReader.cpp XMLReader::getQName
ret false
call getNCName => XMLReader_getNCName
call refreshCharBuffer => XMLReader_refreshCharBuffer
method toFill.append => XMLBuffer_append_1
method toFill.getLen => XMLBuffer_getLen
throws XMLReader_refreshCharBuffer XMLReader_getNCName
contract
__CPROVER_requires(RI_RDR && !verif_thrown && G == 0 && BUFLEN <= VERIF_BUFLEN_MAX)
__CPROVER_requires(__CPROVER_w_ok(colonPosition, sizeof(*colonPosition)))
__CPROVER_assigns(fCharIndex, fCharsAvail, fNoMore, fCurCol, __CPROVER_object_upto(fCharBuf, sizeof(fCharBuf)), BUFLEN, BUFCH, *colonPosition, verif_thrown, verif_throw_type, verif_throw_code)
/* C01: reader invariant re-established on every exit (also when a refill threw) */
__CPROVER_ensures(RI_RDR)
__CPROVER_ensures(BUFLEN >= __CPROVER_old(BUFLEN) && BUFLEN <= VERIF_BUFLEN_MAX && (verif_thrown ==> !__CPROVER_return_value))
__CPROVER_ensures((GA < __CPROVER_old(BUFLEN)) ==> BUFCH == __CPROVER_old(BUFCH))
/* no NCName at all: nothing consumed, no colon */
__CPROVER_ensures((!verif_thrown && BUFLEN == __CPROVER_old(BUFLEN)) ==> (!__CPROVER_return_value && *colonPosition == -1 && fCurCol == __CPROVER_old(fCurCol)))
__CPROVER_ensures((!verif_thrown && __CPROVER_return_value) ==> BUFLEN > __CPROVER_old(BUFLEN))
/* the reported colon position holds a colon and lies in the part appended by this call */
__CPROVER_ensures((!verif_thrown && BUFLEN <= (XMLSize_t)0x7fffffff && *colonPosition != -1) ==> (*colonPosition > 0 && (XMLSize_t)*colonPosition > __CPROVER_old(BUFLEN) && (XMLSize_t)*colonPosition < BUFLEN && (GA == (XMLSize_t)*colonPosition ==> BUFCH == chColon)))
/* C03: the column advances by exactly the number of characters handed to the caller, the colon included (modulo 2^8, see note) */
__CPROVER_ensures(!verif_thrown ==> (XMLByte)(fCurCol - __CPROVER_old(fCurCol)) == (XMLByte)(BUFLEN - __CPROVER_old(BUFLEN)))
/* C04/C02 maximality wherever the refills fell */
__CPROVER_ensures((!verif_thrown && __CPROVER_return_value && fCharIndex < fCharsAvail && *colonPosition != -1) ==> !(PRED_ncnamechar(fCharBuf[fCharIndex]) && !IS_SURR(fCharBuf[fCharIndex])))
/* without a colon: the next unread character is not a colon. (That it does not continue the NCName either is not provable here from the
   refill contract alone: when getNCName stopped because refreshCharBuffer() reported end-of-data, getQName asks again, and only
   "a refill that reported end-of-data keeps doing so" (fNoMore) -- which XMLReader_ri.inc does not state -- excludes new name characters.) */
__CPROVER_ensures((!verif_thrown && BUFLEN <= (XMLSize_t)0x7fffffff && __CPROVER_return_value && fCharIndex < fCharsAvail && *colonPosition == -1) ==> fCharBuf[fCharIndex] != chColon)
@*/

struct XMLBuffer TOFILL;
int COLON;
void h_getQName(void)
{
  VERIF_INPUT(SELF);
  VERIF_INPUT(COLON);
  verif_thrown = 0;
  XMLReader_getQName(&TOFILL, &COLON);
  VERIF_CANARY("after call");
}
