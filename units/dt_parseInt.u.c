//@ unit dt_parseInt
//@ props C09 C01
//@ kind P
//@ enforce XMLDateTime_parseInt
//@ entry h_dt_parseInt
//@ note P: loop contract, any number of iterations; buffer length bounded by DT_NB = 12 characters (the ghost value table is an unrolled recurrence), NUL-terminated at fEnd as setBuffer() leaves it; every 0 <= start <= end <= fEnd
//@ note postcondition from the value space (XML Schema Part 2, 3.2.7.1 / 3.2.11 gYear: "additional digits to the left ... are allowed"): the function either reports an error or returns exactly the decimal value of the digit string -- never a wrapped value. An implementation limit is acceptable only if it is reported (Part 2, 5.4 partial implementation of infinite datatypes).
#define VERIF_DEFINE_GHOSTS
#include "verif_prelude.h"
//@ struct src/xercesc/util/XMLDateTime.hpp XMLDateTime only=auto
//@ include XMLDateTime_numeral.inc

/*@extract src/xercesc/util/XMLDateTime.cpp XMLDateTime::parseInt
contract
PARSEINT_CONTRACT
loop 1
__CPROVER_assigns(i, retVal, verif_thrown, verif_throw_type, verif_throw_code)
__CPROVER_loop_invariant(start <= i && i <= end && !verif_thrown && DIGOK[i - start] && (unsigned long long)retVal == VAL[i - start] && retVal <= 2147483647u)
__CPROVER_decreases(end - i)
@*/

struct { XMLCh a[DT_NB + 1]; } BUF;

void h_dt_parseInt(void)
{
  XMLSize_t n, start, end;
  VERIF_INPUT(BUF); VERIF_INPUT(n); VERIF_INPUT(start); VERIF_INPUT(end); VERIF_INPUT(GS); VERIF_INPUT(NUMERAL);
  VERIF_ASSUME(n <= DT_NB && start <= end && end <= n && GS == start);
  fBuffer = BUF.a + (DT_NB - n);        /* end-aligned: n characters + terminator */
  VERIF_ASSUME(fBuffer[n] == 0);
  fEnd = n;
  NUMERAL_DEFINE()
  verif_thrown = 0;
  XMLDateTime_parseInt(start, end);
  VERIF_CANARY("after call");
}
