//@ unit dt_parseInt
//@ props C09 C01
//@ kind W
//@ def quick NB=11
//@ def thorough NB=13
//@ cbmc all --unwind 15 --unwinding-assertions
//@ entry h_dt_parseInt
//@ note W: complete for every XMLCh buffer of length <= NB (NUL-terminated at fEnd as setBuffer() leaves it) and every 0 <= start <= end <= fEnd; loops fully unwound with unwinding assertions. NB = 11 covers 10- and 11-digit numerals, i.e. everything beyond UINT_MAX/INT_MAX.
//@ note postcondition from the value space (XML Schema Part 2, 3.2.7.1 / 3.2.11 gYear: "additional digits to the left ... are allowed"): the function either reports an error or returns exactly the decimal value of the digit string -- never a wrapped value. An implementation limit is acceptable only if it is reported (Part 2, 5.4 partial implementation of infinite datatypes).
//@ note parseIntYear precondition fStart == 0: both call sites (parseYear, getYearMonth) run right after initParser() set fStart = 0 (the function mixes fStart-relative and absolute indices, so it is only meaningful there)
#define VERIF_DEFINE_GHOSTS
#include "verif_prelude.h"
//@ struct src/xercesc/util/XMLDateTime.hpp XMLDateTime only=auto

/*@extract src/xercesc/util/XMLDateTime.cpp XMLDateTime::parseInt
@*/
/*@extract src/xercesc/util/XMLDateTime.cpp XMLDateTime::parseIntYear
call parseInt => XMLDateTime_parseInt
throws XMLDateTime_parseInt
@*/

struct { XMLCh a[NB + 1]; } BUF;

void h_dt_parseInt(void)
{
  XMLSize_t n, start, end;
  int which;
  VERIF_INPUT(BUF); VERIF_INPUT(n); VERIF_INPUT(start); VERIF_INPUT(end); VERIF_INPUT(which);
  VERIF_ASSUME(n <= NB && start <= end && end <= n);
  fBuffer = BUF.a + (NB - n);        /* end-aligned: n characters + terminator */
  VERIF_ASSUME(fBuffer[n] == 0);
  fEnd = n;
  fStart = 0;
  verif_thrown = 0;

  if (which) {
    /* ---------------- parseInt(start, end) ---------------- */
    int r = XMLDateTime_parseInt(start, end);
    VERIF_CANARY("after call");
    /* reference: decimal value as a mathematical integer, saturating: `big` = the value exceeds INT_MAX (prefix values
       of a numeral never decrease, so once a prefix exceeds INT_MAX the numeral does) */
    unsigned long long v = 0;
    int alldigits = 1, big = 0;
    for (XMLSize_t i = start; i < end; i++) {
      XMLCh c = fBuffer[i];
      if (c < 0x30 || c > 0x39) { alldigits = 0; break; }
      v = v * 10 + (unsigned)(c - 0x30);
      if (v > 2147483647ull) { big = 1; v = 0; }
    }
    if (!alldigits) {
      __CPROVER_assert(verif_thrown && verif_throw_type == VT_NumberFormatException, "C09: parseInt: a non-digit is rejected (NumberFormatException)");
    } else {
      if (end - start <= 9) __CPROVER_assert(!verif_thrown, "C09: parseInt: up to 9 digits always accepted");
      __CPROVER_assert(verif_thrown || (!big && r >= 0 && (unsigned long long)r == v), "C09: parseInt: result is the decimal value of the digit string, no wrap-around");
    }
  } else {
    /* ---------------- parseIntYear(end) ---------------- */
    int r = XMLDateTime_parseIntYear(end);
    VERIF_CANARY("after call");
    XMLSize_t s = (n > 0 && fBuffer[0] == 0x2D) ? 1 : 0;
    VERIF_ASSUME(s <= end);
    unsigned long long v = 0;
    int alldigits = 1, big = 0;
    for (XMLSize_t i = s; i < end; i++) {
      XMLCh c = fBuffer[i];
      if (c < 0x30 || c > 0x39) { alldigits = 0; break; }
      v = v * 10 + (unsigned)(c - 0x30);
      if (v > 2147483647ull) { big = 1; v = 0; }
    }
    /* lexical space of the year part: '-'? digit{4,}, no leading zero when more than four digits (3.2.7.1) */
    int lexical_ok = alldigits && (end - s >= 4) && !(end - s > 4 && fBuffer[s] == 0x30);
    if (!lexical_ok)
      __CPROVER_assert(verif_thrown, "C09: parseIntYear: year outside the lexical space (short, leading zero, non-digit) is rejected");
    else {
      if (end - s <= 9) __CPROVER_assert(!verif_thrown, "C09: parseIntYear: 4..9 digit year accepted");
      __CPROVER_assert(verif_thrown || (!big && (s ? ((long long)r == -(long long)v) : ((long long)r == (long long)v))),
                       "C09: parseIntYear: result is the (signed) decimal value of the year, no wrap-around");
    }
  }
}
