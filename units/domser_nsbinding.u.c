//@ unit domser_nsbinding
//@ props C12 C06 C01
//@ kind W
//@ def quick NDEPTH=3 NBIND=2
//@ def thorough NDEPTH=4 NBIND=3
//@ cbmc all --unwind 6 --unwinding-assertions
//@ entry h_nsbinding
//@ note W: complete for namespace stacks of <= NDEPTH scopes x <= NBIND bindings each over 5 string ids (null, "", three others), every prefix and uri; the loops of isNamespaceBindingActive and isDefaultNamespacePrefixDeclared are the real text, fully unwound
//@ note stubs (contracts/domser_ns.inc): fNamespaceStack->size/elementAt and RefHashTableOf::get are accessors of a small array of (prefix id, uri id) scopes; strings are ids (equal iff same id; null and "" equal for XMLString::equals)
//@ note spec (Namespaces in XML 1.0 section 6.1/6.2: the innermost declaration of a prefix is the one in scope, xmlns="" un-declares the default namespace): isNamespaceBindingActive(p, u) is true iff the innermost scope that binds p binds it to u; isDefaultNamespacePrefixDeclared must be true whenever a default namespace is in force (it guards the emission of xmlns="") and false when no scope mentions the empty prefix
#define VERIF_DEFINE_GHOSTS
#include "verif_prelude.h"
//@ include domser_ns.inc

/*@extract src/xercesc/dom/impl/DOMLSSerializerImpl.cpp DOMLSSerializerImpl::isNamespaceBindingActive
sub fNamespaceStack->size\(\) => NS_size()
sub RefHashTableOf<XMLCh>\* curNamespaceMap=fNamespaceStack->elementAt\( => int curNamespaceMap=NS_elementAt(
sub curNamespaceMap->get\( => NS_get(curNamespaceMap, 
sub XMLString::equals\( => ST_equals(
@*/
/*@extract src/xercesc/dom/impl/DOMLSSerializerImpl.cpp DOMLSSerializerImpl::isDefaultNamespacePrefixDeclared
sub fNamespaceStack->size\(\) => NS_size()
sub RefHashTableOf<XMLCh>\* curNamespaceMap=fNamespaceStack->elementAt\( => int curNamespaceMap=NS_elementAt(
sub curNamespaceMap->get\( => NS_get(curNamespaceMap, 
@*/

void h_nsbinding(void)
{
  unsigned char pfx, uri;
  VERIF_INPUT(SCOPES); VERIF_INPUT(NS_DEPTH); VERIF_INPUT(pfx); VERIF_INPUT(uri);
  NS_assume_wellformed();
  /* the serializer records a null uri only for the empty prefix (xmlns="" on an element without namespace) */
  for (int d = 0; d < NDEPTH; d++) for (int k = 0; k < NBIND; k++) VERIF_ASSUME(SCOPES.a[d].uri[k] != 0 || SCOPES.a[d].pfx[k] == ID_EMPTY);
  VERIF_ASSUME(pfx >= 1 && pfx < NSTR && uri < NSTR);     /* the callers pass a non-null prefix ("" for none) and any uri */
  verif_thrown = 0;

  bool active = DOMLSSerializerImpl_isNamespaceBindingActive(STR_PTR(pfx), STR_PTR(uri));
  bool defdecl = DOMLSSerializerImpl_isDefaultNamespacePrefixDeclared();
  VERIF_CANARY("after calls");

  unsigned char bound = 0, dbound = 0; int stored_null, dstored_null;
  int found = SPEC_innermost(pfx, &bound, &stored_null);
  int dfound = SPEC_innermost(ID_EMPTY, &dbound, &dstored_null);
  int same = (bound == uri) || ((bound == 0 || bound == ID_EMPTY) && (uri == 0 || uri == ID_EMPTY));
  if (found && NS_DEPTH == NDEPTH) VERIF_CANARY("a binding under a full stack is reachable");
  if (found && stored_null) VERIF_CANARY("an un-declaration stored as a null uri is reachable");

  if (!stored_null)
    __CPROVER_assert(active == (found && same), "C12/C06: isNamespaceBindingActive: the innermost scope that binds the prefix decides (true iff it binds it to that uri; false when no scope binds it)");
  else   /* only the direction that matters for the output: answering "active" suppresses the declaration */
    __CPROVER_assert(!active || (found && same), "C12/C06: isNamespaceBindingActive with an un-declaration in scope (xmlns='' recorded by the serializer as a null uri): a binding hidden by the innermost declaration of the prefix is not active");
  __CPROVER_assert(!(dfound && dbound != 0 && dbound != ID_EMPTY) || defdecl, "C12/C06: isDefaultNamespacePrefixDeclared is true whenever a default namespace is in force");
  __CPROVER_assert(dfound || !defdecl, "C12/C06: isDefaultNamespacePrefixDeclared is false when no scope declares the empty prefix");
}
