#!/usr/bin/env python3
"""Per-unit pipeline: x2c -> goto-cc -> goto-instrument (legacy two-step contracts) -> cbmc -> parsed result.

Exit-code discipline (DESIGN §2.4): a unit result is one of
  'proved'    every obligation SUCCESS and all vacuity guards passed
  'failed'    at least one obligation FAILURE (with names + trace inputs)
  'undecided' time-out / memory / extraction break / tool error / guard failure  (never a violation)
"""
import json
import os
import re
import resource
import shutil
import subprocess
import sys
import time

HERE = os.path.dirname(os.path.abspath(__file__))
VERIF = os.path.dirname(HERE)
sys.path.insert(0, HERE)
import x2c  # noqa: E402

BUILD = os.path.join(VERIF, 'build')
GEN = os.path.join(BUILD, 'gen')
STD_CHECKS = ['--bounds-check', '--pointer-check', '--div-by-zero-check', '--signed-overflow-check',
              '--undefined-shift-check', '--pointer-primitive-check']
TIER_LIMITS = {'quick': (300, 8 * 1024), 'thorough': (1800, 14 * 1024)}  # seconds, MB

PEDANTIC = re.compile(r'pointer relation: pointer outside object bounds|pointer arithmetic: pointer outside object bounds')


def _limits(mem_mb):
    def f():
        b = mem_mb * 1024 * 1024
        resource.setrlimit(resource.RLIMIT_AS, (b, b))
        os.setsid()
    return f


def run(cmd, log, timeout, mem_mb, stdout_path=None):
    t0 = time.time()
    so = open(stdout_path, 'wb') if stdout_path else subprocess.PIPE
    try:
        p = subprocess.Popen(cmd, stdout=so, stderr=subprocess.PIPE if stdout_path else subprocess.STDOUT,
                             preexec_fn=_limits(mem_mb), cwd=os.path.dirname(log))
        try:
            out, err = p.communicate(timeout=timeout)
            rc = p.returncode
        except subprocess.TimeoutExpired:
            try:
                os.killpg(p.pid, 9)
            except Exception:
                p.kill()
            out, err = p.communicate()
            rc = 'timeout'
    finally:
        if stdout_path:
            so.close()
    with open(log, 'wb') as f:
        f.write((' '.join(cmd) + '\n').encode())
        if not stdout_path and out:
            f.write(out)
        if err:
            f.write(err)
    return rc, time.time() - t0


def gen_consts():
    os.makedirs(GEN, exist_ok=True)
    r = subprocess.run([sys.executable, os.path.join(HERE, 'gen_consts.py'), os.path.join(GEN, 'xerces_consts.h')],
                       capture_output=True, text=True)
    if r.returncode != 0:
        raise x2c.ExtractionError('gen_consts: ' + r.stderr.strip())


def parse_cbmc_json(path):
    """return (properties list, messages list, status)"""
    try:
        with open(path) as f:
            txt = f.read()
        data = json.loads(txt)
    except Exception as e:
        # truncated output (killed): try to salvage nothing
        return None, ['unparsable cbmc json: %s' % e], None
    props = None
    msgs = []
    status = None
    for item in data:
        if 'result' in item:
            props = item['result']
        if 'messageText' in item:
            msgs.append(item['messageText'])
        if 'cProverStatus' in item:
            status = item['cProverStatus']
    return props, msgs, status


def trace_inputs(trace, limit=60):
    """pull the harness-level input assignments out of a cbmc json trace (named nondet objects)."""
    ins = {}
    for st in trace or []:
        if st.get('stepType') != 'assignment' or st.get('hidden'):
            continue
        lhs = st.get('lhs', '')
        fn = (st.get('sourceLocation') or {}).get('function', '')
        if not fn.startswith('h_') and fn not in ('', '__CPROVER_initialize'):
            continue
        if lhs.startswith(('__CPROVER', 'return_value', 'tmp_')) or '$' in lhs:
            continue
        v = st.get('value', {})
        ins[lhs] = simplify_value(v)
    # keep insertion order, cap
    return dict(list(ins.items())[:limit])


def simplify_value(v):
    if not isinstance(v, dict):
        return v
    if 'members' in v:
        return {m['name']: simplify_value(m['value']) for m in v['members']}
    if 'elements' in v:
        return [simplify_value(e['value']) for e in v['elements']]
    if 'data' in v:
        return v['data']
    return v.get('name', str(v))


def run_unit(template, tier='quick', keep=True, extra_defs=None, repo=None, build_tag=None, first_fail=False):
    """returns result dict"""
    t_start = time.time()
    if repo:
        x2c.REPO = repo
        x2c._src_cache.clear()
    stem = os.path.basename(template)[:-4]
    bdir = os.path.join(BUILD, 'units', '%s.%s%s' % (stem, tier, ('.' + build_tag) if build_tag else ''))
    shutil.rmtree(bdir, ignore_errors=True)
    os.makedirs(bdir)
    res = {'unit': stem, 'tier': tier, 'status': 'undecided', 'reason': None, 'obligations': 0, 'discharged': 0,
           'failed': [], 'pedantic': [], 'solver_s': 0.0, 'wall_s': 0.0, 'cmds': [], 'build_dir': bdir,
           'canary': None, 'info': None}
    try:
        csrc, info = x2c.process(template)
    except x2c.ExtractionError as e:
        res['reason'] = 'extraction-break: %s' % e
        res['wall_s'] = time.time() - t_start
        return res
    except Exception as e:  # extractor bug: undecided, never a violation
        res['reason'] = 'extraction-break (internal): %r' % e
        res['wall_s'] = time.time() - t_start
        return res
    res['info'] = info
    res['props'] = info['props']
    res['kind'] = info['kind']
    unit_c = os.path.join(bdir, 'unit.c')
    with open(unit_c, 'w') as f:
        f.write(csrc)
    tmo, mem = TIER_LIMITS[tier]
    if info.get('timeout') and tier in info['timeout']:
        tmo = info['timeout'][tier]
    if info.get('mem'):
        mem = info['mem']
    defs = info['defs']['all'] + info['defs'][tier] + (extra_defs or [])
    dflags = ['-D' + d for d in defs]
    incs = ['-I', os.path.join(VERIF, 'include'), '-I', GEN, '-I', os.path.join(VERIF, 'spec')]
    cb_extra = info['cbmc']['all'] + info['cbmc'][tier]
    any_loops = any(f['loops_annotated'] for f in info['functions'])

    def build(tag, more_defs):
        a = os.path.join(bdir, tag + '.a.gb')
        b = os.path.join(bdir, tag + '.b.gb')
        c = os.path.join(bdir, tag + '.c.gb')
        cmd = ['goto-cc', '--function', info['entry']] + incs + dflags + more_defs + [unit_c, '-o', a]
        rc, _ = run(cmd, os.path.join(bdir, tag + '.gotocc.log'), 300, mem)
        res['cmds'].append(' '.join(cmd))
        if rc != 0 or not os.path.exists(a):
            return None, 'goto-cc failed (see %s)' % os.path.join(bdir, tag + '.gotocc.log')
        cur = a
        if any_loops:
            cmd = ['goto-instrument', '--apply-loop-contracts', cur, b]
            rc, _ = run(cmd, os.path.join(bdir, tag + '.gi1.log'), 600, mem)
            res['cmds'].append(' '.join(cmd))
            if rc != 0 or not os.path.exists(b):
                return None, 'goto-instrument --apply-loop-contracts failed (see %s)' % os.path.join(bdir, tag + '.gi1.log')
            cur = b
        if info['enforce'] or info['replace']:
            replace = list(info['replace'])
            for attempt in range(len(replace) + 1):
                cmd = ['goto-instrument']
                for f in info['enforce']:
                    cmd += ['--enforce-contract', f]
                for g in replace:
                    cmd += ['--replace-call-with-contract', g]
                cmd += [cur, c]
                if os.path.exists(c):
                    os.remove(c)
                rc, _ = run(cmd, os.path.join(bdir, tag + '.gi2.log'), 600, mem)
                if rc == 0 and os.path.exists(c):
                    break
                # a callee that the body no longer calls is not in the goto program: drop it from the replace list
                # (the missing call is then judged by the enforced contract) and try again
                lg = open(os.path.join(bdir, tag + '.gi2.log'), errors='replace').read()
                mm = re.search(r"Function '(\w+)' was not found in the GOTO program", lg)
                if mm and mm.group(1) in replace:
                    replace.remove(mm.group(1))
                    res.setdefault('replace_targets_not_called', []).append(mm.group(1))
                    continue
                break
            res['cmds'].append(' '.join(cmd))
            if rc != 0 or not os.path.exists(c):
                return None, 'goto-instrument contracts failed (see %s)' % os.path.join(bdir, tag + '.gi2.log')
            cur = c
        return cur, None

    # ---- main run
    gb, err = build('main', [])
    if err:
        res['reason'] = err
        res['wall_s'] = time.time() - t_start
        return res
    # list the properties, drop the pedantic pointer-formation ones (DESIGN ledger item 3): in cbmc 6 a failed
    # pointer check is "fatal" and turns every later property into UNKNOWN, so they must not be selected at all.
    # Unselected properties are skipped, not assumed (probed).
    base = ['cbmc', gb] + STD_CHECKS + cb_extra
    pj = os.path.join(bdir, 'props.json')
    rc, _ = run(base + ['--show-properties', '--json-ui'], os.path.join(bdir, 'props.log'), 300, mem, stdout_path=pj)
    allprops = None
    try:
        for item in json.load(open(pj)):
            if 'properties' in item:
                allprops = item['properties']
    except Exception:
        pass
    if allprops is None:
        res['reason'] = 'cbmc --show-properties failed (see %s)' % os.path.join(bdir, 'props.log')
        res['wall_s'] = time.time() - t_start
        return res
    selected = [q['name'] for q in allprops if not PEDANTIC.search(q.get('description', ''))]
    res['pedantic_excluded'] = len(allprops) - len(selected)
    sel_args = []
    for nme in selected:
        sel_args += ['--property', nme]
    if first_fail:
        # debugging aid: stop at the first failing property and show the violated property + last assignments
        ff = os.path.join(bdir, 'firstfail.txt')
        run(base + sel_args + ['--stop-on-fail'], os.path.join(bdir, 'firstfail.log'), tmo, mem, stdout_path=ff)
        txt = open(ff, errors='replace').read()
        i = txt.find('Violated property:')
        states = re.findall(r'^State \d+ file (\S+) function (\S+) line (\d+).*\n-+\n  (.*)$', txt[:i if i > 0 else len(txt)], re.M)
        for st in states[-int(os.environ.get('VERIF_FF_STATES', '45')):]:
            if st[1] != '__CPROVER_initialize':
                print('  %s:%s  %s' % (st[1], st[2], st[3][:160]))
        print(txt[i:i + 900] if i > 0 else txt[-600:])
        res['reason'] = 'first-fail debug run'
        return res
    outj = os.path.join(bdir, 'cbmc.json')
    cmd = base + sel_args + ['--json-ui', '--verbosity', '6']
    rc, secs = run(cmd, os.path.join(bdir, 'cbmc.log'), tmo, mem, stdout_path=outj)
    res['cmds'].append(' '.join(base) + ' --property <each of the %d non-pedantic properties> --json-ui' % len(selected))
    res['solver_s'] = round(secs, 2)
    if rc == 'timeout':
        # proving everything timed out; a violated obligation is usually found much faster than the rest is proved:
        # look for one with --stop-on-fail before giving up (a counterexample found this way is a genuine FAILED obligation)
        sj = os.path.join(bdir, 'stoponfail.json')
        rc2, secs2 = run(base + sel_args + ['--stop-on-fail', '--json-ui', '--verbosity', '4'], os.path.join(bdir, 'stoponfail.log'),
                         max(120, tmo // 2), mem, stdout_path=sj)
        sp, _, _ = parse_cbmc_json(sj) if rc2 != 'timeout' else (None, None, None)
        hit = [q for q in (sp or []) if q.get('status') == 'FAILURE']
        if hit:
            q = hit[0]
            loc = q.get('sourceLocation') or {}
            o = {'name': q.get('property', ''), 'description': q.get('description', ''), 'status': 'FAILURE', 'file': loc.get('file'),
                 'line': loc.get('line'), 'function': loc.get('function'), 'inputs': trace_inputs(q.get('trace')), 'trace_file': sj}
            if '.no-body.' not in o['name']:
                res['status'] = 'failed'
                res['failed'] = [o]
                res['obligations'] = len(selected)
                res['discharged'] = 0
                res['reason'] = 'full run timed out after %ds; --stop-on-fail found this violated obligation' % tmo
                res['wall_s'] = round(time.time() - t_start, 2)
                return res
        res['reason'] = 'cbmc time-out after %ds' % tmo
        res['wall_s'] = time.time() - t_start
        return res
    props, msgs, status = parse_cbmc_json(outj)
    if props is None:
        res['reason'] = 'cbmc produced no result list (rc=%s; out of memory or tool error): %s' % (rc, '; '.join(m for m in msgs[-3:]))
        res['wall_s'] = time.time() - t_start
        return res
    # a call to a function without a body is silently treated as "returns anything, changes nothing" by cbmc: only
    # the callees deliberately replaced by contracts (and nondet_* helpers) may be body-less
    for m in msgs:
        mm = re.search(r"no body for (?:function|callee) '?([A-Za-z_]\w*)", m)
        if mm and not (mm.group(1) in (info.get('replace') or []) or mm.group(1).startswith(('nondet', '__CPROVER', '__builtin'))):
            res['reason'] = 'guard: call to %s which has no body and no contract replacement (misspelt name?)' % mm.group(1)
            res['wall_s'] = time.time() - t_start
            return res
    # quantifier guard
    for m in msgs:
        if 'ignoring forall' in m or 'ignoring exists' in m:
            res['reason'] = 'guard: back end ignored a quantifier (%s)' % m
            res['wall_s'] = time.time() - t_start
            return res
    obligations = []
    failed = []
    unknown = []
    for p in props:
        desc = p.get('description', '')
        name = p.get('property', '')
        st = p.get('status')
        loc = p.get('sourceLocation') or {}
        o = {'name': name, 'description': desc, 'status': st, 'file': loc.get('file'), 'line': loc.get('line'),
             'function': loc.get('function')}
        obligations.append(o)
        if st == 'FAILURE':
            failed.append(o)
        elif st != 'SUCCESS':
            unknown.append(o)
    nb = [o for o in failed if '.no-body.' in o['name']]
    if nb:
        res['reason'] = 'guard: call to a function without body or contract replacement (%s): harness/unit error, not a violation' % ', '.join(o['description'] for o in nb[:3])
        res['obligations'] = len(obligations)
        res['wall_s'] = time.time() - t_start
        return res
    res['unknown_after_fatal'] = len(unknown)
    # counterexample traces for the first few failed obligations, each asked for by name
    for k, o in enumerate(failed[:3]):
        tj = os.path.join(bdir, 'trace%d.json' % k)
        cmdt = base + ['--property', o['name'], '--trace', '--json-ui', '--verbosity', '4']
        rct, _ = run(cmdt, os.path.join(bdir, 'trace%d.log' % k), tmo, mem, stdout_path=tj)
        tp, _, _ = parse_cbmc_json(tj)
        for q in tp or []:
            if q.get('property') == o['name'] and q.get('trace'):
                o['inputs'] = trace_inputs(q['trace'])
                o['trace_file'] = tj
    pedantic = []
    res['obligations'] = len(obligations)
    res['discharged'] = sum(1 for o in obligations if o['status'] == 'SUCCESS')
    res['failed'] = failed
    res['pedantic'] = pedantic
    res['obligation_list'] = [{k: o[k] for k in ('name', 'description', 'status', 'file', 'line')} for o in obligations]
    # ---- vacuity guards
    guard_err = None
    if len(obligations) == 0:
        guard_err = 'guard: zero obligations'
    n_annot = sum(f['loops_annotated'] for f in info['functions'])
    n_inv_base = sum(1 for o in obligations if re.search(r'loop invariant before entry', o['description']))
    n_inv_step = sum(1 for o in obligations if re.search(r'invariant is preserved', o['description']))
    res['loop_invariant_obligations'] = [n_inv_base, n_inv_step]
    if n_annot and (n_inv_base < n_annot or n_inv_step < n_annot):
        guard_err = 'guard: %d annotated loops but %d/%d invariant base/step obligations' % (n_annot, n_inv_base, n_inv_step)
    # unannotated loops in a P/L unit with no unwind flags -> cbmc would not terminate or the unit is mislabeled
    if info['kind'] in ('P', 'L') and any('--unwind' in x for x in cb_extra):
        guard_err = 'guard: unit labelled %s but uses --unwind' % info['kind']
    if info['enforce'] and any(o.get('function') == info['entry'] and str(o.get('file', '')).startswith('src/xercesc')
                               for o in obligations):
        guard_err = 'guard: extracted code was inlined into the harness (a loop in the harness?) -- --enforce-contract bypassed'
    # --replace-call-with-contract also replaces the harness's own call, so the enforced body would be unreachable
    # (every obligation in it trivially SUCCESS): a function must not be both enforced and replaced in one unit
    if set(info['enforce']) & set(info['replace']):
        guard_err = 'guard: %s both enforced and replaced in one unit (the enforced body is unreachable)' % sorted(set(info['enforce']) & set(info['replace']))
    # every ensures clause of an enforced contract must show as a postcondition obligation
    if info['enforce']:
        n_post = sum(1 for o in obligations if re.search(r'[Cc]heck ensures clause|postcondition', o['description']))
        res['postcondition_obligations'] = n_post
        if n_post == 0:
            guard_err = 'guard: enforced contract produced no postcondition obligation'
    if failed:
        res['status'] = 'failed'
    elif unknown:
        res['reason'] = 'cbmc left %d properties UNKNOWN without a FAILURE' % len(unknown)
    elif guard_err:
        res['reason'] = guard_err
    else:
        res['status'] = 'proved'
    # ---- canary run (only when the main run proved; a failed run already shows reachability)
    if res['status'] == 'proved':
        gbc, err = build('canary', ['-DVERIF_CANARY_BUILD'])
        if err:
            res['status'] = 'undecided'
            res['reason'] = 'canary build: ' + err
        else:
            outc = os.path.join(bdir, 'canary.json')
            ce = [x for x in cb_extra if x != '--unwinding-assertions']
            cpj = os.path.join(bdir, 'canary.props.json')
            run(['cbmc', gbc, '--no-standard-checks'] + ce + ['--show-properties', '--json-ui'],
                os.path.join(bdir, 'canary.props.log'), 300, mem, stdout_path=cpj)
            csel = []
            try:
                for item in json.load(open(cpj)):
                    for q in item.get('properties', []) if isinstance(item, dict) else []:
                        if q.get('description', '').startswith('canary'):
                            csel += ['--property', q['name']]
            except Exception:
                pass
            cmd = ['cbmc', gbc, '--no-standard-checks', '--slice-formula'] + ce + csel + ['--json-ui', '--verbosity', '4']
            rc, secs = run(cmd, os.path.join(bdir, 'canary.log'), tmo, mem, stdout_path=outc)
            res['cmds'].append(' '.join(cmd))
            cprops, _, _ = parse_cbmc_json(outc)
            if rc == 'timeout' or cprops is None:
                res['status'] = 'undecided'
                res['reason'] = 'canary run did not finish'
            else:
                can = [p for p in cprops if p.get('description', '').startswith('canary')]
                ok = [p for p in can if p['status'] == 'FAILURE']
                res['canary'] = {'placed': len(can), 'reached': len(ok)}
                if not can or len(ok) != len(can):
                    res['status'] = 'undecided'
                    res['reason'] = 'guard: canary not reachable (%d placed, %d reached) -- vacuous precondition?' % (len(can), len(ok))
    res['wall_s'] = round(time.time() - t_start, 2)
    if not keep and res['status'] == 'proved':
        for fn in os.listdir(bdir):
            if fn.endswith('.gb'):
                os.remove(os.path.join(bdir, fn))
    return res


if __name__ == '__main__':
    import argparse
    ap = argparse.ArgumentParser()
    ap.add_argument('template')
    ap.add_argument('--tier', default='quick')
    ap.add_argument('-D', action='append', default=[])
    ap.add_argument('--ff', action='store_true')
    a = ap.parse_args()
    gen_consts()
    t = a.template
    if not os.path.exists(t):
        t = os.path.join(VERIF, 'units', t + '.u.c')
    r = run_unit(t, a.tier, extra_defs=a.D, first_fail=a.ff)
    brief = {k: r[k] for k in ('unit', 'status', 'reason', 'obligations', 'discharged', 'solver_s', 'wall_s', 'canary')}
    print(json.dumps(brief))
    for o in r['failed'][:20]:
        print('FAILED', o['name'], '|', o['description'], '|', o['file'], o['line'])
        if o.get('inputs'):
            print('   inputs:', json.dumps(o['inputs'])[:600])
    for o in r['pedantic'][:5]:
        print('pedantic', o['name'], o['description'])
    sys.exit(0 if r['status'] == 'proved' else (1 if r['status'] == 'failed' else 2))
