#!/usr/bin/env python3
"""Run every unit (or those matching a prefix) at a tier and print a status table. Not a registered check."""
import glob, os, sys, time, json
from concurrent.futures import ThreadPoolExecutor
HERE = os.path.dirname(os.path.abspath(__file__)); sys.path.insert(0, HERE)
import pipeline
tier = 'quick'; pref = ''
for a in sys.argv[1:]:
    if a in ('quick', 'thorough'): tier = a
    else: pref = a
pipeline.gen_consts()
ts = [t for t in sorted(glob.glob(os.path.join(os.path.dirname(HERE), 'units', '*.u.c'))) if os.path.basename(t).startswith(pref)]
t0 = time.time()
with ThreadPoolExecutor(max_workers=int(os.environ.get('VERIF_JOBS', '12'))) as ex:
    rs = list(ex.map(lambda t: pipeline.run_unit(t, tier, build_tag='all'), ts))
for r in rs:
    print('%-34s %-9s %-2s %5d/%-5d %7.1fs  %-16s %s' % (r['unit'], r['status'], r.get('kind', '?'), r['discharged'], r['obligations'], r['wall_s'],
          ' '.join(r.get('props', [])), (r.get('reason') or '') [:80] if r['status'] != 'proved' else ''))
    for o in r.get('failed', [])[:3]:
        print('      FAILED %s | %s | %s:%s' % (o['name'], o['description'][:90], o.get('file'), o.get('line')))
print('total wall %.0fs' % (time.time() - t0))
