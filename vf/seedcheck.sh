#!/bin/bash
# usage: seedcheck.sh <patch.diff> <unit> [<unit> ...]  -- apply a seeded change to a scratch worktree at /repo's HEAD and run units against it
P=$1; shift
W=/tmp/mutcheck
git -C $W checkout -q -- . ; git -C $W reset -q --hard $(git -C /repo rev-parse HEAD) 
git -C $W apply $P || { echo "PATCH DOES NOT APPLY"; exit 3; }
for u in "$@"; do VERIF_REPO=$W python3 /verif/vf/pipeline.py $u 2>&1 | cut -c1-260 | head -4; done
git -C $W checkout -q -- .
