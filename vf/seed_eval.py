#!/usr/bin/env python3
"""Evaluate the seeded changes in /verif/seeded against the checks.  For each seeded/<ID>/patch.diff: apply it to a scratch
worktree of /repo's HEAD (/tmp/mutcheck), run every unit that extracts from a file the patch touches (VERIF_REPO = scratch),
and record which unit / obligation catches it.  Writes /verif/seeded/RESULTS.json and RESULTS.md.  Not a registered check.
(The brief's procedure -- git -C /repo apply; run; git checkout -- . -- gives the same result; the scratch worktree is used so
that work going on in /repo is not disturbed.)"""
import glob, json, os, re, subprocess, sys, time
from concurrent.futures import ThreadPoolExecutor
HERE = os.path.dirname(os.path.abspath(__file__)); VERIF = os.path.dirname(HERE); sys.path.insert(0, HERE)
import pipeline, x2c
W = '/tmp/mutcheck'

def sh(cmd, **kw):
    return subprocess.run(cmd, shell=True, capture_output=True, text=True, **kw)

def unit_files():
    m = {}
    incs = {}
    for t in glob.glob(os.path.join(VERIF, 'units', '*.u.c')):
        txt = open(t).read()
        for inc in re.findall(r'^//@ include (\S+)', txt, re.M):
            p = os.path.join(VERIF, 'contracts', inc)
            if os.path.exists(p):
                txt += open(p).read()
        files = set(re.findall(r'/\*@extract\s+(\S+)', txt)) | set(re.findall(r'^//@ (?:table|struct|enum|rebind)\s+(\S+)', txt, re.M))
        props = re.search(r'^//@ props (.*)$', txt, re.M)
        m[t] = (files, props.group(1).split() if props else [])
    return m

def main():
    only = sys.argv[1:]
    head = sh('git -C /repo rev-parse HEAD').stdout.strip()
    if not os.path.isdir(W):
        sh('git -C /repo worktree add -f %s HEAD' % W)
    uf = unit_files()
    pipeline.gen_consts()
    results = {}
    # baseline: obligations that already fail on the unchanged tree (open findings, units in progress) never count as a catch
    seeds = [d for d in sorted(glob.glob(os.path.join(VERIF, 'seeded', '*-*'))) if not only or os.path.basename(d) in only]
    need = set()
    for d in seeds:
        touched = set(re.findall(r'^\+\+\+ b/(\S+)', open(os.path.join(d, 'patch.diff')).read(), re.M))
        need |= {t for t, (files, props) in uf.items() if files & touched}
    x2c.REPO = '/repo'; x2c._src_cache.clear()
    with ThreadPoolExecutor(max_workers=12) as ex:
        base = list(ex.map(lambda t: pipeline.run_unit(t, 'quick', repo='/repo', build_tag='seedbase'), sorted(need)))
    baseline = {r_['unit']: ({o['description'] for o in r_['failed']}, r_['status']) for r_ in base}
    print('baseline: %d units, failing on the unchanged tree: %s' % (len(base), [u for u, (f, st) in baseline.items() if st != 'proved']), flush=True)
    for d in seeds:
        sid = os.path.basename(d)
        patch = os.path.join(d, 'patch.diff')
        sh('git -C %s checkout -q -- . ; git -C %s reset -q --hard %s' % (W, W, head))
        r = sh('git -C %s apply %s' % (W, patch))
        if r.returncode != 0:
            results[sid] = {'applies': False, 'note': r.stderr.strip()[:300]}
            continue
        touched = set(re.findall(r'^\+\+\+ b/(\S+)', open(patch).read(), re.M))
        units = [t for t, (files, props) in uf.items() if files & touched]
        t0 = time.time()
        x2c.REPO = W; x2c._src_cache.clear()
        with ThreadPoolExecutor(max_workers=12) as ex:
            rs = list(ex.map(lambda t: pipeline.run_unit(t, 'quick', repo=W, build_tag='seed'), units))
        caught = []
        undec = []
        for r_ in rs:
            if r_['status'] == 'failed':
                newf = [o for o in r_['failed'] if o['description'] not in baseline.get(r_['unit'], (set(), ''))[0]]
                if not newf:
                    continue
                caught.append({'unit': r_['unit'], 'props': r_.get('props'), 'obligations': [o['description'][:140] + ' @' + str(o.get('file')) + ':' + str(o.get('line')) for o in newf[:3]]})
            elif r_['status'] == 'undecided':
                undec.append({'unit': r_['unit'], 'reason': (r_.get('reason') or '')[:160]})
        meta = json.load(open(os.path.join(d, 'meta.json'))) if os.path.exists(os.path.join(d, 'meta.json')) else {}
        results[sid] = {'applies': True, 'files': sorted(touched), 'units_run': [os.path.basename(u)[:-4] for u in units], 'caught_by': caught,
                        'undecided': undec, 'summary': meta.get('summary'), 'needs': meta.get('needs'), 'wall_s': round(time.time() - t0, 1),
                        'repo_head': head[:7]}
        print(sid, 'CAUGHT by ' + ', '.join(c['unit'] for c in caught) if caught else ('MISSED (units run: %d, undecided: %d)' % (len(units), len(undec))), flush=True)
        sh('git -C %s checkout -q -- .' % W)
    x2c.REPO = '/repo'; x2c._src_cache.clear()
    outp = os.path.join(VERIF, 'seeded', 'RESULTS.json')
    old = json.load(open(outp)) if os.path.exists(outp) and only else {}
    old.update(results)
    json.dump(old, open(outp, 'w'), indent=1)
    with open(os.path.join(VERIF, 'seeded', 'RESULTS.md'), 'w') as f:
        f.write('# Seeded changes vs. checks (generated by vf/seed_eval.py)\n\n| id | files | caught by (unit: first obligation) | if missed: why |\n|---|---|---|---|\n')
        for sid in sorted(old):
            r_ = old[sid]
            if not r_.get('applies'):
                f.write('| %s | - | patch does not apply to current HEAD | %s |\n' % (sid, r_.get('note', '')[:80])); continue
            cb = '; '.join('%s: %s' % (c['unit'], c['obligations'][0][:90]) for c in r_['caught_by']) or '**missed**'
            f.write('| %s | %s | %s | %s |\n' % (sid, ', '.join(os.path.basename(x) for x in r_['files']), cb, '' if r_['caught_by'] else ('no unit extracts from these files' if not r_['units_run'] else 'units run: ' + ', '.join(r_['units_run'][:6]))))
    return 0

if __name__ == '__main__':
    sys.exit(main())
