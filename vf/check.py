#!/usr/bin/env python3
"""Property-level driver:  check.py <PROPERTY> [--tier quick|thorough] [--unit U ...]

exit 0  every obligation of every (non-bounded) unit of the property discharged, guards passed
exit 1  an obligation FAILED that known_findings.txt does not list  (prints VIOLATION property=<id> replay=<path>)
exit 2  undecided (time-out, extraction break, guard failure)           (prints UNDECIDED ...; never a violation)
"""
import argparse
import glob
import json
import os
import re
import sys
import time
from concurrent.futures import ThreadPoolExecutor

HERE = os.path.dirname(os.path.abspath(__file__))
VERIF = os.path.dirname(HERE)
sys.path.insert(0, HERE)
import pipeline  # noqa: E402
import x2c  # noqa: E402
import replay  # noqa: E402

UNITS = os.path.join(VERIF, 'units')
LEDGER = [
    'extraction rules R1-R13 preserve the semantics of the extracted bodies (guarded by must-fire rules, the differential translation check where a native driver exists, and the setup self-test; not proved)',
    'exceptions modelled as "set ghost, return default"; destructors of locals not run; OutOfMemory not modelled',
    'flat-memory pointer formation (pointer up to 8 elements past an object, relational comparison of such pointers) treated as address arithmetic; those cbmc properties are excluded (count reported as pedantic_excluded); dereferences always checked',
    'target model LP64 little-endian, XMLCh=uint16_t, XMLSize_t=size_t, int 32 bit',
    'buffer lengths bounded by the per-unit MAXN/-D constants listed under units[].defines; reader buffer constants rebound (R13)',
    'CBMC 6.11.0 + MiniSat 2.2.1 sound; legacy (non-dfcc) contract instrumentation',
]


def units_for(prop, tier=None):
    out = []
    for t in sorted(glob.glob(os.path.join(UNITS, '*.u.c'))):
        with open(t) as f:
            head = f.read(4000)
        m = re.search(r'^//@ props (.*)$', head, re.M)
        if m and prop in m.group(1).split():
            mt = re.search(r'^//@ tier (.*)$', head, re.M)
            if mt and tier and tier not in mt.group(1).split():
                continue      # `//@ tier thorough`: not part of the per-change tier
            out.append(t)
    return out


def load_known():
    known = []
    p = os.path.join(VERIF, 'known_findings.txt')
    if os.path.exists(p):
        for ln in open(p):
            ln = ln.strip()
            if ln.startswith('known:'):
                kv = dict(re.findall(r'(\w+)=("[^"]*"|\S+)', ln))
                kv = {k: v.strip('"') for k, v in kv.items()}
                kv['_text'] = re.sub(r'^property=\S+\s*', '', ln[len('known:'):].strip())
                known.append(kv)
    return known


_KNOWN = None


def load_known_cached():
    global _KNOWN
    if _KNOWN is None:
        _KNOWN = load_known()
    return _KNOWN


def is_known(known, prop, unit, o):
    for k in known:
        if prop not in k.get('property', '').split(',') or k.get('unit') != unit:
            continue
        pat = k.get('obligation', '')
        try:
            hit = bool(pat) and (pat == o['name'] or re.search(pat, o['description'] or '') is not None)
        except re.error:
            hit = bool(pat) and pat in (o['description'] or '')
        if hit:
            if k.get('line') and str(o.get('line')) != k['line']:
                continue
            return k
    return None


def main():
    ap = argparse.ArgumentParser()
    ap.add_argument('prop')
    ap.add_argument('--tier', default=os.environ.get('VERIF_TIER', 'quick'))
    ap.add_argument('--unit', action='append')
    ap.add_argument('--jobs', type=int, default=int(os.environ.get('VERIF_JOBS', '16')))
    ap.add_argument('--no-evidence', action='store_true')
    a = ap.parse_args()
    tier = a.tier if a.tier in ('quick', 'thorough') else 'quick'
    seed = int(os.environ.get('VERIF_SEED', '0') or 0)
    t0 = time.time()
    try:
        pipeline.gen_consts()
    except x2c.ExtractionError as e:
        print('UNDECIDED property=%s reason=%s' % (a.prop, e))
        return 2
    templates = units_for(a.prop, None if a.unit else tier)
    if a.unit:
        templates = [t for t in templates if os.path.basename(t)[:-4] in a.unit]
    if not templates:
        print('UNDECIDED property=%s reason=no units' % a.prop)
        return 2
    def run_one(t):
        r_ = pipeline.run_unit(t, tier)
        # thorough tier: a unit whose larger bounds do not finish within the budget falls back to its per-change bounds
        # (the result then says so: it is a proof for the quick-tier bounds only, never counted as a thorough one)
        if tier == 'thorough' and r_.get('status') == 'undecided' and ('time-out' in str(r_.get('reason')) or 'memory' in str(r_.get('reason'))):
            why = r_.get('reason')
            r_ = pipeline.run_unit(t, 'quick')
            r_['fallback'] = 'thorough bounds: %s; result is for the quick-tier bounds' % why
        return r_
    with ThreadPoolExecutor(max_workers=a.jobs) as ex:
        results = list(ex.map(run_one, templates))
    known = load_known()
    violations = []
    known_hits = []
    undecided = []
    units_ev = []
    bounded_ev = []
    n_obl = n_dis = 0
    funcs = []
    samples = []
    assumptions = list(LEDGER)
    checker_cmds = []
    solver_s = 0.0
    for r in results:
        info = r.get('info') or {}
        kind = r.get('kind', '?')
        ev = {'unit': r['unit'], 'kind': kind, 'status': r['status'], 'obligations': r['obligations'],
              'discharged': r['discharged'], 'back_end': 'cbmc 6.11.0 / MiniSat 2.2.1 (default SAT)',
              'solver_s': r['solver_s'], 'wall_s': r['wall_s'], 'canary': r.get('canary'),
              'pedantic_excluded': r.get('pedantic_excluded'),
              'defines': (info.get('defs', {}).get('all', []) + info.get('defs', {}).get(tier, [])) if info else [],
              'cbmc_flags': (info.get('cbmc', {}).get('all', []) + info.get('cbmc', {}).get(tier, [])) if info else [],
              'rules_fired': info.get('rules_fired'), 'reason': r.get('reason'),
              'enforced': info.get('enforce'), 'replaced_by_contract': info.get('replace')}
        if r.get('fallback'):
            # the unit was proved with its quick-tier bounds: report those
            ev['fallback'] = r['fallback']
            ev['defines'] = (info.get('defs', {}).get('all', []) + info.get('defs', {}).get('quick', [])) if info else []
            ev['cbmc_flags'] = (info.get('cbmc', {}).get('all', []) + info.get('cbmc', {}).get('quick', [])) if info else []
            assumptions.append('[%s] %s' % (r['unit'], r['fallback']))
            print('NOTE property=%s unit=%s %s' % (a.prop, r['unit'], r['fallback']))
        solver_s += r['solver_s']
        for f in info.get('functions', []):
            funcs.append('%s (%s:%s) [unit %s, %s]' % (f['qualified'], f['file'], f['line'], r['unit'], kind))
        for n in info.get('notes', []):
            assumptions.append('[%s] %s' % (r['unit'], n))
        for g in info.get('replace', []) or []:
            assumptions.append('[%s] callee %s replaced by its contract (assumed here; see evidence of the unit that enforces it, if any)' % (r['unit'], g))
        if r['status'] == 'undecided':
            undecided.append(r)
        # obligations that fail under a known-finding entry (and those cbmc leaves UNKNOWN behind such a fatal failure)
        # are reported separately and are not part of the proof count
        kf = [o for o in r.get('failed', []) if is_known(load_known_cached(), a.prop, r['unit'], o)]
        ev['known_finding_obligations'] = [o['description'] for o in kf]
        counted = r['obligations']
        if kf:
            counted = r['discharged'] + (len(r.get('failed', [])) - len(kf))
            ev['obligations'] = counted
            ev['not_counted'] = {'known_findings': len(kf), 'unknown_after_fatal': r.get('unknown_after_fatal', 0)}
        if kind == 'B':
            bounded_ev.append(ev)
        else:
            units_ev.append(ev)
            n_obl += counted
            n_dis += r['discharged']
        if r.get('cmds'):
            checker_cmds.append(r['cmds'][-2] if r.get('canary') else r['cmds'][-1])
        for o in (r.get('obligation_list') or [])[:2]:
            samples.append({'unit': r['unit'], 'obligation': o['name'], 'description': o['description'],
                            'source': '%s:%s' % (o['file'], o['line']), 'status': o['status']})
        for o in r.get('failed', []):
            k = is_known(known, a.prop, r['unit'], o)
            if k:
                known_hits.append((r, o, k))
            else:
                violations.append((r, o))
    # ---- reporting
    for r, o, k in known_hits:
        print('KNOWN-FINDING: property=%s %s' % (a.prop, k['_text']))
    rc = 0
    seen = set()
    for r, o in violations:
        key = (r['unit'], o['name'])
        if key in seen:
            continue
        seen.add(key)
        path, confirmed = replay.write_replay(a.prop, r, o, tier)
        suffix = '' if confirmed else ' no-failing-input-found'
        print('VIOLATION property=%s replay=%s unit=%s obligation="%s" at %s:%s%s'
              % (a.prop, path, r['unit'], o['description'], o.get('file'), o.get('line'), suffix))
        rc = 1
    for r in undecided:
        print('UNDECIDED property=%s unit=%s reason=%s' % (a.prop, r['unit'], r.get('reason')))
    if rc == 0 and undecided:
        rc = 2
    wall = time.time() - t0
    if not a.no_evidence:
        level = 'proof'
        if units_ev == [] and bounded_ev:
            level = 'other'
        try:      # never report more than is claimed for the property (C11: bounded stand-ins plus two single-function units)
            import claims
            if claims.CLAIMED.get(a.prop, ('proof',))[0] == 'other':
                level = 'other'
        except Exception:
            pass
        known_failed = len({(r['unit'], o['name']) for r, o, k in known_hits})
        cov = {
            'obligations': n_obl,
            'discharged': n_dis,
            'checker_cmd': ' ;; '.join(checker_cmds[:3]) + (' ;; ... (%d units; full list under units[])' % len(checker_cmds) if len(checker_cmds) > 3 else ''),
            'trusted_base': ['cbmc 6.11.0 (goto-cc, goto-instrument --apply-loop-contracts / --enforce-contract / --replace-call-with-contract, legacy instrumentation)',
                             'MiniSat 2.2.1 as built into cbmc', '/verif/vf/x2c.py extraction rules', 'spec functions in /verif/spec'],
            'samples': samples[:12],
            'functions_under_contract': funcs,
            'units': units_ev,
            'bounded_units': bounded_ev,
            'bounded_note': 'units of kind B are bounded stand-ins: never counted in obligations/discharged',
            'solver_seconds_total': round(solver_s, 1),
            'known_findings_failed_obligations': known_failed,
            'undecided_units': [r['unit'] for r in undecided],
            'explanation': 'each unit = real function bodies extracted from /repo working tree by x2c on this run, contracts spliced, discharged by cbmc; see DESIGN.md',
        }
        evd = {'property_id': a.prop, 'tier': tier, 'seed': seed, 'level': level, 'coverage': cov,
               'assumptions': assumptions, 'wall_s': round(wall, 2), 'violations': len(seen)}
        os.makedirs(os.path.join(VERIF, 'evidence'), exist_ok=True)
        tmp = os.path.join(VERIF, 'evidence', '%s.json.tmp' % a.prop)
        with open(tmp, 'w') as f:
            json.dump(evd, f, indent=1)
        os.replace(tmp, os.path.join(VERIF, 'evidence', '%s.json' % a.prop))
    print('property=%s tier=%s units=%d (+%d bounded) obligations=%d discharged=%d known=%d violations=%d undecided=%d wall=%.1fs'
          % (a.prop, tier, len(units_ev), len(bounded_ev), n_obl, n_dis, len(known_hits), len(seen), len(undecided), wall))
    return rc


if __name__ == '__main__':
    sys.exit(main())
