#!/usr/bin/env python3
"""x2c -- mechanical extraction of xerces-c function bodies into a C translation unit.

A *unit template* (/verif/units/<name>.u.c) is C text with directives:

  //@ unit NAME                      (must equal the file stem)
  //@ props C05 C01 ...              properties this unit contributes obligations to
  //@ kind P|W|L|B                   P loop contracts (unbounded iterations), W width-bounded complete unwind,
                                     L loop-free complete, B bounded stand-in (never counted as proved)
  //@ def quick|thorough|all K=V ... -D defines per tier
  //@ cbmc quick|thorough|all FLAGS  extra cbmc flags
  //@ enforce FN / //@ replace FN    goto-instrument --enforce-contract / --replace-call-with-contract
  //@ entry FN                       harness entry point
  //@ note TEXT                      assumption recorded in the evidence
  //@ tier thorough                  the unit is run in this tier only (too slow for the per-change tier)
  //@ table FILE NAME [as CNAME] [asenum]   copy a static table / constant definition textually (asenum: scalar
                                     constant emitted as `enum { NAME = value };` so that it can be an array bound in C)
  //@ struct FILE CLASS [opts]       generate `struct CLASS` from the real class declaration + static SELF
                                     (opts: name= self=|none only=auto|a,b enums= structs= ov:member= plain [members without f prefix])
  //@ enum FILE ENUM PREFIX          generate enum constants from the real header
  //@ macro FILE NAME                copy a function-like #define (continuation lines included); body rewritten like code
  //@ define FILE NAME               copy an object-like `#define NAME value` (one line; wrapped in #ifndef so that -D can rebind it)
  /*@extract FILE QUALNAME           verbatim function body + spliced contract
     as CNAME | pick N | params SUBSTR | inclass | static | ret EXPR | call a=>b | throws CNAME
     retself   (method returning Class& through `return *this;` only: emitted as a void function)
     template-ok   (out-of-line member of a class template: the `template <class T>` prefix is stripped; the unit typedefs T)
     retref    (method returning T& to an lvalue: emitted as returning T*, `return lv;` becomes `return &(lv);`)
     (a template-id in a parameter type, `RefVectorOf<KVStringPair>& toFill`, is mangled to `RefVectorOf_KVStringPair`: R17;
      the unit supplies that type)
     constref-byvalue   (`const T& x` parameters of scalar type are passed by value; the body must not take &x)
     (QUALNAME `C::C` = a CONSTRUCTOR, R20: emitted as `void C_C(params)`; the member-initialiser list becomes leading statements
      of the body in source order: `fM(e)` -> `fM = (e);`, `fM()` -> `fM = 0;`, a base-class initialiser `Base(args)` stays a call
      `Base(args);` for the unit to rename with `call` / `sub`; see contracts/cm_node.inc, units/cm_node_*.u.c)
     sub RE => REPL | sub* RE => REPL | drop-loop-contract-ok
     streamops VAR [PUT GET]   every statement `VAR << e1 << e2 ...;` / `VAR >> l1 >> l2 ...;` (C++ stream operator chains on the
               object VAR, e.g. an XSerializeEngine&) becomes `{ PUT(VAR, e1); PUT(VAR, e2); }` / `{ GET(VAR, l1); GET(VAR, l2); }`
               (default names ENG_PUT / ENG_GET, supplied by the unit); operands are kept verbatim (casts included); no
               occurrence is only noted (a dropped field is judged by the harness)
     contract / loop K  blocks (lines up to the next key)
  @*/

Every rewrite rule is must-fire (unless marked optional); anything unrecognised aborts with
ExtractionError (exit 2 = undecided, never a violation).
"""
import os
import re
import sys
import hashlib

REPO = os.environ.get('VERIF_REPO', '/repo')


class ExtractionError(Exception):
    pass


# ---------------------------------------------------------------------------------------------
# R1: comment stripping that preserves line structure
# ---------------------------------------------------------------------------------------------
def strip_comments(s):
    out = []
    i = 0
    n = len(s)
    while i < n:
        if s.startswith('//', i):
            j = s.find('\n', i)
            j = n if j < 0 else j
            i = j
        elif s.startswith('/*', i):
            j = s.find('*/', i)
            if j < 0:
                raise ExtractionError('unterminated comment')
            j += 2
            out.append('\n' * s.count('\n', i, j))
            i = j
        elif s[i] in '"\'':
            q = s[i]
            j = i + 1
            while s[j] != q:
                if s[j] == '\\':
                    j += 1
                j += 1
            out.append(s[i:j + 1])
            i = j + 1
        else:
            out.append(s[i])
            i += 1
    return ''.join(out)


_src_cache = {}


def read_src(rel):
    if rel not in _src_cache:
        p = os.path.join(REPO, rel)
        if not os.path.exists(p):
            raise ExtractionError('source file missing: %s' % rel)
        with open(p, encoding='utf-8', errors='replace') as f:
            _src_cache[rel] = strip_comments(f.read())
    return _src_cache[rel]


def match_close(s, i, open_ch='(', close_ch=')'):
    """s[i] == open_ch; return index of the matching close."""
    assert s[i] == open_ch, (s[i - 10:i + 10], open_ch)
    d = 0
    n = len(s)
    j = i
    while j < n:
        c = s[j]
        if c in '"\'':
            q = c
            j += 1
            while s[j] != q:
                if s[j] == '\\':
                    j += 1
                j += 1
        elif c == open_ch:
            d += 1
        elif c == close_ch:
            d -= 1
            if d == 0:
                return j
        j += 1
    raise ExtractionError('unbalanced %s' % open_ch)


def split_top(s, sep=','):
    parts = []
    d = 0
    cur = []
    for c in s:
        if c in '([{<':
            d += 1
        elif c in ')]}>':
            d -= 1
        if c == sep and d == 0:
            parts.append(''.join(cur))
            cur = []
        else:
            cur.append(c)
    parts.append(''.join(cur))
    return parts


# ---------------------------------------------------------------------------------------------
# R2: locate a function definition
# ---------------------------------------------------------------------------------------------
def find_function(src, qual, pick=1, params_sub=None, inclass=False):
    """return (ret_type_text, params_text, body_text, body_start_offset, is_const)"""
    if inclass:
        cls, name = qual.rsplit('::', 1)
        m = re.search(r'\b(class|struct)\s+(\w+\s+)?%s\b[^;{]*\{' % re.escape(cls), src)
        if not m:
            raise ExtractionError('class %s not found' % cls)
        cend = match_close(src, m.end() - 1, '{', '}')
        lo, hi = m.end(), cend
        pat = re.compile(r'\b%s\s*\(' % re.escape(name))
    else:
        lo, hi = 0, len(src)
        pat = re.compile(r'(?<![\w:])%s\s*\(' % re.escape(qual).replace('::', r'::\s*'))
    found = []
    pos = lo
    while True:
        m = pat.search(src, pos, hi)
        if not m:
            break
        pos = m.end()
        po = m.end() - 1
        pc = match_close(src, po)
        params = src[po + 1:pc]
        # after the parameter list: optional const, then '{' (definition) -- skip declarations/calls
        k = pc + 1
        tail = re.match(r'\s*(const)?\s*(XERCES_NOEXCEPT|noexcept)?\s*', src[k:])
        k2 = k + tail.end()
        # R20 (additive): a CONSTRUCTOR definition `C::C(params) : Base(args), fM(e) { body }`: the member-initialiser list
        # becomes leading statements of the body, in source order (`fM(e)` -> `fM = (e);`, `fM()` -> `fM = 0;`, a base-class
        # initialiser stays a call `Base(args);` for the unit to rename); the function is emitted as `void C_C(params)`
        qparts = qual.split('::')
        is_ctor = len(qparts) >= 2 and qparts[-1] == qparts[-2]
        ctor_init = None
        if is_ctor and k2 < len(src) and src[k2] == ':' and src[k2:k2 + 2] != '::':
            j = k2 + 1
            d = 0
            while j < len(src) and not (src[j] == '{' and d == 0):
                if src[j] == '(':
                    d += 1
                elif src[j] == ')':
                    d -= 1
                elif src[j] == ';':
                    break
                j += 1
            if j < len(src) and src[j] == '{':
                ctor_init = src[k2 + 1:j]
                k2 = j
        if k2 >= len(src) or src[k2] != '{':
            continue
        # return type = text back to previous ';', '}', '{' or preprocessor line / access label
        b = m.start()
        a = b
        while a > lo and src[a - 1] not in ';}{':
            a -= 1
        pre = src[a:b]
        # drop preprocessor lines and access labels inside the prefix
        pre = '\n'.join(l for l in pre.split('\n') if not l.strip().startswith('#'))
        pre = re.sub(r'\b(public|private|protected)\s*:', ' ', pre)
        ret = ' '.join(pre.split())
        if not ret and '~' in qual:
            ret = 'void'   # destructor definition
        if is_ctor and ret in ('', 'inline', 'explicit', 'inline explicit'):
            ret = 'void'   # R20: constructor definition
        if not ret or ret.endswith(('=', ',', '(', 'return', '&&', '||', '!')):
            continue  # a call inside an expression, not a definition
        if params_sub is not None and params_sub not in ' '.join(params.split()):
            continue
        be = match_close(src, k2, '{', '}')
        fbody = src[k2:be + 1]
        if ctor_init is not None:
            stmts = []
            for it in split_top(ctor_init):
                mi = re.match(r'^\s*([A-Za-z_]\w*)\s*\((.*)\)\s*$', it, re.S)
                if not mi:
                    raise ExtractionError('%s: member initialiser %r not in subset' % (qual, ' '.join(it.split())))
                nm, arg = mi.group(1), ' '.join(mi.group(2).split())
                if re.match(r'^f[A-Z]', nm):
                    stmts.append('%s = %s;' % (nm, '(' + arg + ')' if arg else '0'))
                else:
                    stmts.append('%s(%s);' % (nm, arg))
            fbody = '{ ' + ' '.join(stmts) + fbody[1:]      # no newline added: #line mapping of the body stays exact
        found.append((ret, params, fbody, k2, tail.group(1) is not None))
    if len(found) < pick:
        raise ExtractionError('definition %s (pick %d, params %r) not found; %d candidates'
                              % (qual, pick, params_sub, len(found)))
    return found[pick - 1]


# ---------------------------------------------------------------------------------------------
# generic body rewrites
# ---------------------------------------------------------------------------------------------
SCALAR_TYPES = ['XMLCh', 'XMLByte', 'XMLSize_t', 'XMLSSize_t', 'XMLUInt32', 'XMLUInt16', 'XMLInt32', 'XMLInt16',
                'XMLUInt64', 'XMLInt64', 'XMLFileLoc', 'XMLFilePos', 'UCS4Ch', 'XMLUTF16Ch', 'XMLInt16',
                'unsigned int', 'unsigned char', 'unsigned short', 'unsigned long', 'int', 'char', 'short',
                'long', 'bool', 'size_t', 'float', 'double']

THROW_MACROS = re.compile(r'\b(ThrowXMLwithMemMgr[1-4]?|ThrowXML[1-4]?)\s*\(')


class Counter(dict):
    def hit(self, k, n=1):
        self[k] = self.get(k, 0) + n


def rw_casts(body, cnt):
    # R6 static_cast<T>(e) etc.
    pat = re.compile(r'\b(static_cast|reinterpret_cast|const_cast)\s*<')
    while True:
        m = pat.search(body)
        if not m:
            break
        lt = m.end() - 1
        gt = match_close(body, lt, '<', '>')
        ty = body[lt + 1:gt].strip()
        k = gt + 1
        while body[k].isspace():
            k += 1
        if body[k] != '(':
            raise ExtractionError('cast without ( near %r' % body[m.start():m.start() + 40])
        pc = match_close(body, k)
        body = body[:m.start()] + '((' + ty + ')(' + body[k + 1:pc] + '))' + body[pc + 1:]
        cnt.hit('R6_cast')
    # functional casts  XMLCh(e)  ->  ((XMLCh)(e))   (only for known scalar typedef names, not decls)
    for ty in ['XMLCh', 'XMLByte', 'XMLSize_t', 'XMLUInt32', 'XMLInt32', 'XMLUInt16', 'XMLFileLoc', 'UCS4Ch',
               'XMLUTF16Ch', 'XMLSSize_t', 'XMLFilePos', 'XMLUInt64']:
        pat = re.compile(r'(?<![\w\)])%s\s*\((?!\s*\))' % ty)
        pos = 0
        while True:
            m = pat.search(body, pos)
            if not m:
                break
            # a preceding '(' + type + ')' is a C cast already: "(XMLCh)(" -- lookbehind handles ')' before
            k = m.end() - 1
            pc = match_close(body, k)
            body = body[:m.start()] + '((' + ty + ')(' + body[k + 1:pc] + '))' + body[pc + 1:]
            cnt.hit('R6_functional_cast')
            pos = m.start() + 2
    return body


def rw_throws(body, cnt, exc_types):
    # R8
    while True:
        m = THROW_MACROS.search(body)
        if not m:
            break
        k = m.end() - 1
        pc = match_close(body, k)
        args = split_top(body[k + 1:pc])
        ty = args[0].strip()
        code = args[1].strip()
        exc_types.add(ty)
        body = body[:m.start()] + 'VERIF_THROW(%s, %s)' % (ty, code) + body[pc + 1:]
        cnt.hit('R8_throw')
    # plain `throw Type(args);`  -> VERIF_THROW(Type, 0)
    pat = re.compile(r'\bthrow\s+(\w+)\s*\(')
    while True:
        m = pat.search(body)
        if not m:
            break
        k = m.end() - 1
        pc = match_close(body, k)
        args = split_top(body[k + 1:pc])
        code = args[0].strip() if args and args[0].strip() else '0'
        exc_types.add(m.group(1))
        body = body[:m.start()] + 'VERIF_THROW(%s, %s)' % (m.group(1), code) + body[pc + 1:]
        cnt.hit('R8_throw_plain')
    return body


def rw_quals(text, cnt):
    # R3  A::b -> A_b   (also nested A::B::c)
    def rep(m):
        cnt.hit('R3_qual')
        return m.group(0).replace('::', '_')
    return re.sub(r'\b[A-Za-z_]\w*(?:::[A-Za-z_]\w*)+', rep, text)


def rw_calls(body, calls, cnt):
    for rule in calls:
        a, b = rule[0], rule[1]
        pat = re.compile(r'(?<![\w\.>])%s\s*\(' % re.escape(a))
        n = len(pat.findall(body))
        if n == 0:
            # a renamed callee that is no longer called is a semantic change of the body, to be judged by the
            # contract (e.g. a dropped refill), not an extraction break: note it and go on
            cnt.hit('R9_call_rule_idle:%s' % a)
            continue
        body = pat.sub(b + '(', body)
        cnt.hit('R9_call', n)
    return body


def _is_bare_if_prefix(pre):
    """pre (statement text before a call) ends in `if ( balanced )`"""
    pre = pre.rstrip()
    for mm in re.finditer(r'(?<![\w])if\s*\(', pre):
        # (text before the `if` -- e.g. a macro invocation written without ';' -- belongs to an earlier statement)
        try:
            if match_close(pre, mm.end() - 1) == len(pre) - 1:
                return True
        except (ExtractionError, IndexError):
            pass
    return False



# ---------------------------------------------------------------------------------------------
# R14: try / catch  (exceptions are ghosts: a throw inside a try region jumps to its handlers)
# ---------------------------------------------------------------------------------------------
_try_counter = [0]


def rw_try(body, retexpr, cnt):
    """try { B } catch (const T& v) { H } ...   ->
         { /*VERIF_TRY_BEGIN n*/ B /*VERIF_TRY_END n*/ goto verif_endtry_n; verif_catch_n: ;
           if (verif_thrown && verif_throw_type == VT_T) { verif_thrown = 0; H } else ... else VERIF_UNWIND_HERE;
           verif_endtry_n: ; }
    innermost first, so that nested regions get their own labels.  VERIF_UNWIND_HERE is resolved by resolve_unwinds()."""
    while True:
        ms = [m for m in re.finditer(r'(?<![\w])try\s*\{', body)]
        if not ms:
            break
        # innermost = a try whose block contains no further try
        chosen = None
        for m in ms:
            bo = m.end() - 1
            bc = match_close(body, bo, '{', '}')
            if not re.search(r'(?<![\w])try\s*\{', body[bo + 1:bc]):
                chosen = (m, bo, bc)
                break
        m, bo, bc = chosen
        _try_counter[0] += 1
        n = _try_counter[0]
        block = body[bo + 1:bc]
        pos = bc + 1
        handlers = []
        while True:
            mc = re.match(r'\s*catch\s*\(', body[pos:])
            if not mc:
                break
            po = pos + mc.end() - 1
            pc = match_close(body, po)
            decl = ' '.join(body[po + 1:pc].split())
            k = pc + 1
            while body[k].isspace():
                k += 1
            if body[k] != '{':
                raise ExtractionError('catch without block')
            hc = match_close(body, k, '{', '}')
            hbody = body[k + 1:hc]
            # `throw;` in a handler re-raises the exception being handled: the ghost type/code are still those of the throw
            if re.search(r'(?<![\w])throw\s*;', hbody):
                hbody = re.sub(r'(?<![\w])throw\s*;', '{ verif_thrown = 1; VERIF_UNWIND_HERE; }', hbody)
                cnt.hit('R14_rethrow')
            if decl == '...':
                cond = 'verif_thrown'
            else:
                ty = re.sub(r'\b(const)\b|&', ' ', decl).split()[0].replace('::', '_')
                cond = 'verif_thrown && verif_throw_type == VT_%s' % ty
            handlers.append((cond, hbody))
            pos = hc + 1
        if not handlers:
            raise ExtractionError('try without catch')
        # explicit throws inside the region go to the handlers
        block = block.replace('/*VERIF_THROW_SITE*/', '')
        hs = ''
        for cond, hbody in handlers:
            hs += 'if (%s) { verif_thrown = 0; %s } else ' % (cond, hbody)
        new = ('{ /*VERIF_TRY_BEGIN %d*/ %s /*VERIF_TRY_END %d*/ goto verif_endtry_%d; verif_catch_%d: ; %sif (verif_thrown) { VERIF_UNWIND_HERE; } verif_endtry_%d: ; }'
               % (n, block, n, n, n, hs, n))
        body = body[:m.start()] + new + body[pos:]
        cnt.hit('R14_try_catch')
    return body


def enclosing_try(body, pos):
    """number of the innermost try region containing pos, or None"""
    best = None
    for m in re.finditer(r'/\*VERIF_TRY_BEGIN (\d+)\*/', body):
        if m.start() > pos:
            break
        e = body.find('/*VERIF_TRY_END %s*/' % m.group(1), m.end())
        if e > pos:
            best = m.group(1)   # later BEGINs that still enclose pos are more deeply nested
    return best


def unwind_stmt(body, pos, retexpr):
    n = enclosing_try(body, pos)
    return ('goto verif_catch_%s' % n) if n else ('return %s' % retexpr)


def resolve_unwinds(body, retexpr, cnt):
    """VERIF_UNWIND_HERE (after a handler chain that did not match) and VERIF_THROW inside try regions"""
    while True:
        i = body.find('VERIF_UNWIND_HERE')
        if i < 0:
            break
        body = body[:i] + unwind_stmt(body, i, retexpr) + body[i + len('VERIF_UNWIND_HERE'):]
    pos = 0
    while True:
        m = re.search(r'\bVERIF_THROW\(', body[pos:])
        if not m:
            break
        st = pos + m.start()
        n = enclosing_try(body, st)
        if n:
            k = pos + m.end() - 1
            pc = match_close(body, k)
            new = 'VERIF_THROW_TO(%s, verif_catch_%s)' % (body[k + 1:pc], n)
            body = body[:st] + new + body[pc + 1:]
            cnt.hit('R14_throw_in_try')
            pos = st + len(new)
        else:
            pos = pos + m.end()
    return body


def rw_after_throw(body, throwers, retexpr, cnt):
    """statement-level call to a may-throw callee: append `if (verif_thrown) return RET;`"""
    for name in throwers:
        pat = re.compile(r'\b%s\s*\(' % re.escape(name))
        pos = 0
        while True:
            m = pat.search(body, pos)
            if not m:
                break
            k = m.end() - 1
            pc = match_close(body, k)
            # find end of the enclosing statement: must be `...call(...);` possibly `x = call(...);`
            j = pc + 1
            while body[j].isspace():
                j += 1
            # what precedes the call on this statement?
            a = m.start()
            while a > 0 and body[a - 1] not in ';{}':
                a -= 1
            pre = body[a:m.start()].strip()
            pre = re.sub(r'^(?:(?:case\s+[\w\s]+|default)\s*:\s*)+', '', pre)
            if body[j] == ';' and (pre == '' or re.fullmatch(r'(?:else\s+)?(?:[\w\s\*\[\]\.\->\(\)]+=\s*)?', pre) or
                                   re.fullmatch(r'(?:const\s+)?[\w\s\*]+\s+\w+\s*=\s*', pre)):
                if re.match(r'else\b', pre):
                    raise ExtractionError('may-throw call %s directly under else without braces' % name)
                ma = re.fullmatch(r'([\w\.\->\[\]\(\)\*]+)\s*=\s*', pre)
                if ma:
                    # `lhs = f(..);` : in C++ the assignment does not happen when f throws
                    lhs = ma.group(1)
                    call = body[m.start():pc + 1]
                    st_start = body.rindex(pre, 0, m.start())
                    new = ('{ __typeof__(%s) verif_tmp = %s; if (verif_thrown) %s; %s = verif_tmp; }'
                           % (lhs, call, unwind_stmt(body, m.start(), retexpr), lhs))
                    body = body[:st_start] + new + body[j + 1:]
                    cnt.hit('R8_assign_from_thrower')
                    pos = st_start + len(new)
                    continue
                ins = ' if (verif_thrown) %s;' % unwind_stmt(body, m.start(), retexpr)
                body = body[:j + 1] + ins + body[j + 1:]
                cnt.hit('R8_after_call')
                pos = j + 1 + len(ins)
            elif body[j] == ';' and _is_bare_if_prefix(pre):
                # `if (cond) f(..);` / `else if (cond) f(..);` without braces: the call is the whole controlled statement
                call = body[m.start():pc + 1]
                new = '{ %s; if (verif_thrown) %s; }' % (call, unwind_stmt(body, m.start(), retexpr))
                body = body[:m.start()] + new + body[j + 1:]
                cnt.hit('R8_after_call_unbraced_if')
                pos = m.start() + len(new)
            else:
                # inside an expression / condition: wrap the call itself in a GCC statement expression so that a
                # throw leaves the function before anything else of the enclosing expression is evaluated
                call = body[m.start():pc + 1]
                new = ('({ __typeof__(%s) verif_t = %s; if (verif_thrown) %s; verif_t; })' % (call, call, unwind_stmt(body, m.start(), retexpr)))
                body = body[:m.start()] + new + body[pc + 1:]
                cnt.hit('R8_call_in_expression')
                pos = m.start() + len(new)
    return body


def rw_methods(body, methods, cnt):
    """R9: recv.m(args) -> C_m(&(recv), args);  recv->m(args) -> C_m(recv, args)"""
    for a, b in methods:
        if '->' in a:
            recv, name = a.split('->')
            pat = re.compile(r'(?<![\w\.>])%s\s*->\s*%s\s*\(' % (re.escape(recv.strip()), re.escape(name.strip())))
            first = recv.strip()
        else:
            recv, name = a.rsplit('.', 1)
            pat = re.compile(r'(?<![\w\.>])%s\s*\.\s*%s\s*\(' % (re.escape(recv.strip()), re.escape(name.strip())))
            first = '&(' + recv.strip() + ')'
        pos = 0
        n = 0
        while True:
            m = pat.search(body, pos)
            if not m:
                break
            k = m.end() - 1
            pc = match_close(body, k)
            inner = body[k + 1:pc]
            new = b + '(' + first + (', ' + inner if inner.strip() else '') + ')'
            body = body[:m.start()] + new + body[pc + 1:]
            pos = m.start() + len(b) + 1
            n += 1
        if n == 0:
            cnt.hit('R9_method_rule_idle:%s' % a)   # see rw_calls
            continue
        cnt.hit('R9_method', n)
    return body


def rw_streamops(body, var, put, get, cnt, cname):
    """R19: C++ stream-operator chains on one object, statement level:
         VAR << e1 << e2;   ->  { PUT(VAR, e1); PUT(VAR, e2); }
         VAR >> l1 >> l2;   ->  { GET(VAR, l1); GET(VAR, l2); }
    operands are split at `<<` / `>>` outside parentheses/brackets and kept verbatim.  Anything else (the chain used as
    an expression, both directions in one statement) is outside the subset."""
    pat = re.compile(r'(?<![\w\.>])%s\s*(<<|>>)' % re.escape(var))
    pos = 0
    n = 0
    while True:
        m = pat.search(body, pos)
        if not m:
            break
        pre = body[:m.start()].rstrip()
        if pre and pre[-1] not in ';{})' and not re.search(r'(?<![\w])else$', pre):
            raise ExtractionError('%s: streamops: `%s %s` is not at the start of a statement: %r'
                                  % (cname, var, m.group(1), body[max(0, m.start() - 40):m.end() + 20]))
        op = m.group(1)
        # scan to the terminating ';' at depth 0, splitting at top-level << / >>
        j = m.end()
        d = 0
        operands = []
        cur = []
        nbody = len(body)
        while True:
            if j >= nbody:
                raise ExtractionError('%s: streamops: unterminated statement' % cname)
            c = body[j]
            if c in '"\'':
                q = c
                k = j + 1
                while body[k] != q:
                    if body[k] == '\\':
                        k += 1
                    k += 1
                cur.append(body[j:k + 1])
                j = k + 1
                continue
            if c in '([':
                d += 1
            elif c in ')]':
                d -= 1
            elif c in '{}':
                raise ExtractionError('%s: streamops: brace inside a stream statement' % cname)
            elif d == 0 and c == ';':
                break
            elif d == 0 and body.startswith('<<', j) or d == 0 and body.startswith('>>', j) and body[j - 1] != '-':
                if body[j:j + 2] != op:
                    raise ExtractionError('%s: streamops: << and >> mixed in one statement' % cname)
                operands.append(''.join(cur))
                cur = []
                j += 2
                continue
            cur.append(c)
            j += 1
        operands.append(''.join(cur))
        ops = [' '.join(o.split()) for o in operands]
        if any(not o for o in ops):
            raise ExtractionError('%s: streamops: empty operand in %r' % (cname, body[m.start():j + 1]))
        fnm = put if op == '<<' else get
        new = '{ ' + ' '.join('%s(%s, %s);' % (fnm, var, o) for o in ops) + ' }'
        new += '\n' * body.count('\n', m.start(), j + 1)     # keep the line structure
        body = body[:m.start()] + new + body[j + 1:]
        pos = m.start() + len(new)
        n += len(ops)
    if n == 0:
        cnt.hit('R19_streamops_idle:%s' % var)
    else:
        cnt.hit('R19_streamops', n)
    return body


def ref_positions(params):
    params = params.strip()
    if params in ('', 'void'):
        return []
    return [i for i, p in enumerate(split_top(params)) if '&' in re.sub(r'\s*=\s*[^=]+$', '', p)]


def rw_ref_args(body, sigs, cnt):
    """R4 at call sites: an argument bound to a reference parameter of an extracted callee becomes &(arg)"""
    for cname, refs in sigs.items():
        if not refs:
            continue
        pat = re.compile(r'(?<![\w])%s\s*\(' % re.escape(cname))
        pos = 0
        while True:
            m = pat.search(body, pos)
            if not m:
                break
            k = m.end() - 1
            pc = match_close(body, k)
            args = split_top(body[k + 1:pc])
            for i in refs:
                if i < len(args):
                    a = args[i]
                    lead = a[:len(a) - len(a.lstrip())]
                    args[i] = lead + '&(' + a.strip() + ')'
                    cnt.hit('R4_ref_arg')
            new = ','.join(args)
            body = body[:k + 1] + new + body[pc:]
            pos = k + 1 + len(new)
    return body


LOOP_KW = re.compile(r'(?<![\w])(for|while|do)(?![\w])')


def find_loops(body):
    """return list of (kind, kw_start, header_end) in source order.
    For for/while: header_end = index just past the closing ')' of the header.
    `while` that closes a do-loop is not counted."""
    loops = []
    pos = 0
    do_stack = []  # not robust for nested do-in-do without braces; good enough with brace tracking below
    # identify do-while closers: after a `do` body (brace block) comes `while (...) ;`
    closers = set()
    for m in LOOP_KW.finditer(body):
        if m.group(1) == 'do':
            k = m.end()
            while body[k].isspace():
                k += 1
            if body[k] != '{':
                raise ExtractionError('do without braces')
            e = match_close(body, k, '{', '}')
            m2 = re.match(r'\s*while\s*\(', body[e + 1:])
            if not m2:
                raise ExtractionError('do without while')
            closers.add(e + 1 + m2.start(0) + len(m2.group(0)) - len(m2.group(0).lstrip()))
            closers.add(e + 1 + body[e + 1:].index('while'))
    for m in LOOP_KW.finditer(body):
        kind = m.group(1)
        if kind == 'while' and m.start() in closers:
            continue
        if kind == 'do':
            loops.append(('do', m.start(), m.end()))
        else:
            k = m.end()
            while body[k].isspace():
                k += 1
            if body[k] != '(':
                raise ExtractionError('loop keyword without (')
            pc = match_close(body, k)
            loops.append((kind, m.start(), pc + 1))
    return loops


def line_of(src, off):
    return src.count('\n', 0, off) + 1


def splice_loops(body, loop_contracts, base_line, relfile, cname, cnt, allow_missing=False):
    loops = find_loops(body)
    if loop_contracts:
        mx = max(loop_contracts)
        if mx > len(loops):
            # a loop that was annotated no longer exists (e.g. a retry loop reduced to a single attempt): its contract is
            # dropped and the function contract has to hold for the new body -- a semantic change is then reported as a
            # failed obligation instead of an extraction break
            cnt.hit('loop_contract_orphaned:%s' % cname, mx - len(loops))
    # every loop must have a contract unless the unit is bounded (checked by caller via return value)
    # splice from the last to the first so offsets stay valid
    annotated = 0
    for idx in range(len(loops), 0, -1):
        if idx not in loop_contracts:
            continue
        kind, ks, he = loops[idx - 1]
        text = '\n'.join(loop_contracts[idx])
        if kind == 'do':
            # R7: do B while (c);  ->  while (1) CONTRACT { B if (!(c)) break; }
            k = he
            while body[k].isspace():
                k += 1
            e = match_close(body, k, '{', '}')
            inner = body[k + 1:e]
            if re.search(r'\bcontinue\b', inner):
                raise ExtractionError('%s: R7 do-while body contains continue' % cname)
            m2 = re.match(r'\s*while\s*\(', body[e + 1:])
            po = e + 1 + m2.end() - 1
            pc = match_close(body, po)
            cond = body[po + 1:pc]
            semi = pc + 1
            while body[semi].isspace():
                semi += 1
            if body[semi] != ';':
                raise ExtractionError('R7: do-while without ;')
            ln_body = base_line + body.count('\n', 0, k)
            new = ('while (1)\n#line 1 "contract:%s:loop%d"\n%s\n#line %d "%s"\n{%s if (!(%s)) break; }'
                   % (cname, idx, text, ln_body, relfile, inner, cond))
            # keep line count: original text between e and semi may contain newlines
            nl = body.count('\n', e, semi + 1)
            body = body[:ks] + new + '\n' * nl + body[semi + 1:]
            cnt.hit('R7_dowhile')
        else:
            ln = base_line + body.count('\n', 0, he)
            ins = '\n#line 1 "contract:%s:loop%d"\n%s\n#line %d "%s"\n' % (cname, idx, text, ln, relfile)
            if kind == 'for':
                # R7b: goto-cc 6.11 silently drops a loop contract attached to a `for` without a condition (probed:
                # `for (;;)` loses it, `while (1)` keeps it).  `for (;;)` -> `while (1)`; other condition-less forms
                # are outside the subset.
                hdr = body[ks:he]
                parts = split_top(hdr[hdr.index('(') + 1:-1], ';')
                if len(parts) == 3 and not parts[1].strip():
                    if parts[0].strip() or parts[2].strip():
                        raise ExtractionError('%s: annotated for-loop without a condition but with init/step' % cname)
                    body = body[:ks] + 'while (1)' + ' ' * 0 + ins + body[he:]
                    cnt.hit('R7b_for_ever')
                    annotated += 1
                    cnt.hit('loop_contract_spliced')
                    continue
            body = body[:he] + ins + body[he:]
        annotated += 1
        cnt.hit('loop_contract_spliced')
    return body, len(loops), annotated


CXX_LEFTOVERS = [r'::', r'\bnew\b', r'\bdelete\b', r'\bthrow\b', r'\btry\b', r'\bcatch\b', r'\btemplate\b',
                 r'_cast\s*<', r'\bnullptr\b', r'\boperator\b', r'\bthis\b']


def check_leftovers(body, cname):
    for p in CXX_LEFTOVERS:
        m = re.search(p, body)
        if m:
            a = max(0, m.start() - 40)
            raise ExtractionError('%s: C++ construct left after rewriting (%s): %r' % (cname, p, body[a:m.end() + 40]))


def convert_params(params, cnt):
    """R4: return (c_params_text, [ref names])"""
    params = params.strip()
    if params == '' or params == 'void':
        return 'void', []
    out = []
    refs = []
    for p in split_top(params):
        p = ' '.join(p.split())
        p = re.sub(r'\s*=\s*[^=]+$', '', p)  # default value
        m = re.match(r'^(.*?)(\w+)\s*(\[\w*\])?$', p)
        if not m:
            raise ExtractionError('cannot parse parameter %r' % p)
        ty, name, arr = m.group(1).strip(), m.group(2), m.group(3) or ''
        if ty == '':
            # unnamed parameter: type only
            ty, name = name, 'unnamed%d' % len(out)
        elif name == 'const' and ty.endswith('*') and not arr:
            # unnamed pointer parameter with a trailing qualifier (`MemoryManager* const`)
            ty, name = ty + ' const', 'unnamed%d' % len(out)
        elif (re.fullmatch(r'(?:(?:const|volatile)\s*)+', ty) or
              name in ('int', 'char', 'short', 'long', 'unsigned', 'bool', 'float', 'double')) and not arr:
            # unnamed parameter whose type has several words (`const UnRepOpts`, `const unsigned int`): the last
            # word is part of the type, not a name
            ty, name = ty + ' ' + name, 'unnamed%d' % len(out)
        if '&' in ty:
            ty = ty.replace('&', '*')
            refs.append(name)
            name = name + '_p'
            cnt.hit('R4_refparam')
        out.append('%s %s%s' % (ty, name, arr))
    return ', '.join(out), refs


# ---------------------------------------------------------------------------------------------
# class -> struct (R5), tables (R12), enums
# ---------------------------------------------------------------------------------------------
TYPE_MAP = {
    'bool': 'bool', 'int': 'int', 'unsigned int': 'unsigned int', 'char': 'char', 'unsigned char': 'unsigned char',
    'short': 'short', 'unsigned short': 'unsigned short', 'long': 'long', 'unsigned long': 'unsigned long',
    'XMLCh': 'XMLCh', 'XMLByte': 'XMLByte', 'XMLSize_t': 'XMLSize_t', 'XMLSSize_t': 'XMLSSize_t',
    'XMLFileLoc': 'XMLFileLoc', 'XMLFilePos': 'XMLFilePos', 'XMLUInt32': 'XMLUInt32', 'XMLInt32': 'XMLInt32',
    'XMLUInt16': 'XMLUInt16', 'XMLInt16': 'XMLInt16', 'XMLUInt64': 'XMLUInt64', 'XMLInt64': 'XMLInt64',
    'UCS4Ch': 'UCS4Ch', 'double': 'double', 'float': 'float', 'size_t': 'size_t',
}


def class_body(src, cls):
    m = re.search(r'\b(class|struct)\s+(?:\w+\s+)?%s\b[^;{]*\{' % re.escape(cls), src)
    if not m:
        raise ExtractionError('class %s not found' % cls)
    e = match_close(src, m.end() - 1, '{', '}')
    return src[m.end():e]


def flatten_depth0(text):
    """remove nested brace blocks (inline method bodies, nested classes) from a class body"""
    out = []
    d = 0
    for c in text:
        if c == '{':
            d += 1
            continue
        if c == '}':
            d -= 1
            out.append(';')
            continue
        if d == 0:
            out.append(c)
    return ''.join(out)


def gen_struct(relfile, cls, opts, cnt):
    """opts: dict(name=structname, self=SELFNAME or None, enums={type:'int'}, opaque=[types], only=[members],
    override={member: 'decl'})"""
    src = read_src(relfile)
    if opts.get('scope'):
        # nested class/struct: look for it inside the body of the enclosing class (additive option scope=Outer)
        src = class_body(src, opts['scope'])
    body = flatten_depth0(class_body(src, cls))
    members = []
    for stmt in body.split(';'):
        s = ' '.join(stmt.split())
        s = re.sub(r'\b(public|private|protected)\s*:', '', s).strip()
        if not s or '(' in s or s.startswith(('friend', 'typedef', 'enum', 'class', 'struct', 'using', 'static')):
            continue
        if opts.get('plain'):
            # plain-old-data struct whose members do not carry the f prefix (e.g. XMLTransService::TransRec)
            m = re.match(r'^(?:mutable\s+)?(.*?)(\b[A-Za-z_]\w*)\s*((?:\[[^\]]*\])*)$', s)
        else:
            m = re.match(r'^(?:mutable\s+)?(.*?)(\bf[A-Za-z]\w*)\s*((?:\[[^\]]*\])*)$', s)
        if not m:
            continue
        ty, name, arr = m.group(1).strip(), m.group(2), m.group(3)
        members.append((ty, name, arr))
    if not members:
        raise ExtractionError('no data members found in class %s' % cls)
    sname = opts.get('name', cls)
    lines = ['struct %s {' % sname]
    names = []
    only = opts.get('only')
    for ty, name, arr in members:
        if only and name not in only:
            continue
        if name in opts.get('override', {}):
            lines.append('  %s;' % opts['override'][name])
            names.append(name)
            continue
        base = ty.replace('const ', '').replace(' const', '').strip()
        stars = base.count('*')
        core = base.replace('*', '').strip()
        core_c = core.replace('::', '_')
        arr_c = arr.replace('::', '_')
        if core in TYPE_MAP and '<' not in core:
            cty = TYPE_MAP[core] + '*' * stars
        elif core_c in opts.get('enums', {}):
            cty = opts['enums'][core_c] + '*' * stars
        elif core_c in opts.get('structs', []):
            cty = 'struct ' + core_c + '*' * stars
        elif stars > 0:
            cty = 'void' + '*' * stars  # foreign class pointer -> opaque
        else:
            raise ExtractionError('struct %s: member %s has unmappable type %r (list it under enums=/structs=/override=)'
                                  % (cls, name, ty))
        if 'const' in ty and stars and ty.strip().startswith('const'):
            cty = 'const ' + cty
        lines.append('  %s %s%s;' % (cty, name, arr_c))
        names.append(name)
    lines.append('};')
    lines.append('enum { ' + ', '.join('OFS_%s_%s = offsetof(struct %s, %s)' % (sname, n, sname, n) for n in names) + ' };')
    selfn = opts.get('self', 'SELF')
    if selfn:
        lines.append('struct %s %s;' % (sname, selfn))
        for n in names:
            lines.append('#define %s (%s.%s)' % (n, selfn, n))
    cnt.hit('R5_struct_members', len(names))
    return '\n'.join(lines) + '\n', names


def gen_table(relfile, name, cname, cnt, static=True, asenum=False):
    src = read_src(relfile)
    # find `... name[...] = { ... };` or `... name = value;` (qualified names allowed)
    m = None
    # (one regex over the whole file backtracks for ~25 s on XMLChar.cpp: look for `name [..] =` first, then apply
    #  the same pattern to that statement's prefix only -- same matches, in the same order)
    full = re.compile(r'(?:^|[;}\n])([^;{}#]*?\b(?:\w+::)*%s\s*((?:\[[^\]]*\])*)\s*=\s*)' % re.escape(name))

    def candidates():
        for occ in re.finditer(r'\b%s\s*(?:\[[^\]]*\])*\s*=\s*' % re.escape(name), src):
            ws = occ.start()
            while ws > 0 and src[ws - 1] not in ';{}#':
                ws -= 1
            mm = full.search(src, max(ws - 1, 0), occ.end())
            if mm:
                yield mm
    for mc in candidates():
        # a definition has a type in front of the (possibly qualified) name; `name[i] = ...;` inside a function is an assignment
        if re.sub(r'\b(?:\w+::)*%s\b.*' % re.escape(name), '', mc.group(1), flags=re.S).strip():
            m = mc
            break
    if not m:
        raise ExtractionError('table %s not found in %s' % (name, relfile))
    decl = m.group(1)
    k = m.end()
    while src[k].isspace():
        k += 1
    if src[k] == '{':
        e = match_close(src, k, '{', '}')
        init = src[k:e + 1]
    else:
        e = src.index(';', k) - 1
        init = src[k:e + 1]
    if asenum:
        # scalar C++ `const T name = value;` used as an array bound: a C enum constant (value text still from /repo)
        if init.lstrip().startswith('{'):
            raise ExtractionError('table %s: asenum needs a scalar initialiser' % name)
        cnt.hit('R12_table_asenum')
        return '#line %d "%s"\nenum { %s = %s };\n' % (line_of(src, m.start(1)), relfile, cname, rw_quals(init, Counter()))
    decl = ' '.join(decl.split())
    decl = re.sub(r'(?:\w+::)+%s' % re.escape(name), name, decl)
    decl = decl.replace('XMLUTIL_EXPORT', '').replace('XMLPARSER_EXPORT', '')
    if cname != name:
        decl = re.sub(r'\b%s\b' % re.escape(name), cname, decl)
    if static and not decl.startswith('static'):
        decl = 'static ' + decl
    dummy = Counter()
    init = rw_quals(init, dummy)
    decl = rw_quals(decl, dummy)
    cnt.hit('R12_table')
    ln = line_of(src, m.start(1))
    return '#line %d "%s"\n%s %s;\n' % (ln, relfile, decl, init)


def gen_macro(relfile, name, cnt, exc_types):
    """copy a function-like `#define NAME(args) body` (with continuation lines) from the real source; the body gets the
    same rewrites as a function body (R8 throws, R6 casts, R3 qualified names)"""
    src = read_src(relfile)
    m = re.search(r'^[ \t]*#[ \t]*define[ \t]+%s\(([^)]*)\)' % re.escape(name), src, re.M)
    if not m:
        raise ExtractionError('macro %s not found in %s' % (name, relfile))
    k = m.end()
    lines = []
    while True:
        e = src.find('\n', k)
        e = len(src) if e < 0 else e
        ln = src[k:e]
        k = e + 1
        if ln.rstrip().endswith('\\'):
            lines.append(ln.rstrip()[:-1])
        else:
            lines.append(ln)
            break
    body = '\n'.join(lines)
    body = rw_throws(body, cnt, exc_types)
    body = rw_casts(body, cnt)
    body = rw_quals(body, cnt)
    check_leftovers(body, 'macro ' + name)
    cnt.hit('R12_macro')
    text = '#define %s(%s) %s' % (name, m.group(1), ' \\\n'.join(body.split('\n')))
    return '#line %d "%s"\n%s\n' % (line_of(src, m.start()), relfile, text)


def gen_define(relfile, name, cnt):
    """copy an object-like `#define NAME value` (one line, numeric expression over literals and earlier copied names)
    from the real header"""
    src = read_src(relfile)
    m = re.search(r'^[ \t]*#[ \t]*define[ \t]+%s[ \t]+([^\n]*?)[ \t]*$' % re.escape(name), src, re.M)
    if not m:
        raise ExtractionError('object-like macro %s not found in %s' % (name, relfile))
    val = m.group(1).strip()
    if not val or not re.fullmatch(r'[\w\s\(\)\+\-\*/<>]+', val):
        raise ExtractionError('define %s: value %r not in subset' % (name, val))
    cnt.hit('R12_define')
    return '#line %d "%s"\n#ifndef %s\n#define %s %s\n#endif\n' % (line_of(src, m.start()), relfile, name, name, val)


def gen_enum(relfile, enum_name, prefix, cnt, scope=None):
    if prefix == '-':
        prefix = ''
    src = read_src(relfile)
    if scope:
        src_s = class_body(src, scope)
    else:
        src_s = src
    if enum_name.startswith('anon:'):
        # anonymous enum, identified by its first enumerator:  //@ enum FILE anon:mode_Store PREFIX scope=Class
        m = re.search(r'\benum\s*\{(?=\s*%s\b)' % re.escape(enum_name[5:]), src_s)
    else:
        m = re.search(r'\benum\s+%s\s*\{' % re.escape(enum_name), src_s)
    if not m:
        raise ExtractionError('enum %s not found in %s' % (enum_name, relfile))
    e = match_close(src_s, m.end() - 1, '{', '}')
    items = [x.strip() for x in split_top(src_s[m.end():e]) if x.strip()]
    lines = ['enum {']
    for it in items:
        if '=' in it:
            n, v = it.split('=', 1)
            v = re.sub(r'\b([A-Za-z_]\w*)\b', lambda mm: prefix + mm.group(1) if not re.match(r'^(0[xX][0-9a-fA-F]+|\d+)$', mm.group(1)) else mm.group(1), v.strip())
            lines.append('  %s%s = %s,' % (prefix, n.strip(), v))
        else:
            lines.append('  %s%s,' % (prefix, it))
    lines.append('};')
    cnt.hit('R3_enum_values', len(items))
    return '\n'.join(lines) + '\n'


# ---------------------------------------------------------------------------------------------
# the extract block
# ---------------------------------------------------------------------------------------------
def parse_extract_block(text):
    lines = text.split('\n')
    head = lines[0].split()
    if len(head) < 2:
        raise ExtractionError('extract: need FILE QUALNAME')
    spec = {'file': head[0], 'qual': head[1], 'as': head[1].replace('::', '_'), 'pick': 1, 'params': None,
            'inclass': False, 'static': False, 'ret': None, 'calls': [], 'throws': [], 'subs': [],
            'contract': [], 'loops': {}, 'selfparam': None, 'methods': [], 'fragment': None, 'sig': None, 'decl_only': False, 'unannotated_ok': False, 'pre': []}
    mode = None
    cur = None
    for ln in lines[1:]:
        s = ln.strip()
        if mode in ('contract', 'loop', 'pre') and not re.match(r'^(loop \d+|contract|end)\s*$', s):
            if mode == 'contract':
                spec['contract'].append(ln)
            elif mode == 'pre':
                spec['pre'].append(ln)
            else:
                spec['loops'][cur].append(ln)
            continue
        if not s:
            continue
        if s == 'contract':
            mode = 'contract'
        elif s == 'pre':
            mode = 'pre'
        elif s == 'end':
            mode = None
        elif re.match(r'^loop \d+$', s):
            mode = 'loop'
            cur = int(s.split()[1])
            spec['loops'][cur] = []
        elif s.startswith('as '):
            spec['as'] = s[3:].strip()
        elif s.startswith('pick '):
            spec['pick'] = int(s[5:])
        elif s.startswith('params '):
            spec['params'] = s[7:].strip()
        elif s == 'inclass':
            spec['inclass'] = True
        elif s == 'static':
            spec['static'] = True
        elif s.startswith('selfparam '):
            spec['selfparam'] = s[10:].strip()
        elif s.startswith('method '):
            a, b = s[7:].split('=>')
            spec['methods'].append((a.strip(), b.strip()))
        elif s == 'declonly':
            spec['decl_only'] = True
        elif s == 'constref-byvalue':
            spec['constref_byvalue'] = True
        elif s.startswith('fragment '):
            a_, b_ = s[9:].split(' ||| ')
            spec['fragment'] = (a_.strip(), b_.strip())
        elif s.startswith('sig '):
            spec['sig'] = s[4:].strip()
        elif s == 'unannotated-loops-ok':
            spec['unannotated_ok'] = True
        elif s.startswith('ret '):
            spec['ret'] = s[4:].strip()
        elif s == 'retself':
            spec['retself'] = True
        elif s == 'template-ok':
            spec['template_ok'] = True
        elif s == 'retref':
            spec['retref'] = True
        elif s.startswith('streamops '):
            w = s.split()[1:]
            if len(w) not in (1, 3):
                raise ExtractionError('streamops: need VAR or VAR PUT GET')
            spec.setdefault('streamops', []).append((w[0], w[1] if len(w) == 3 else 'ENG_PUT', w[2] if len(w) == 3 else 'ENG_GET'))
        elif s.startswith('call* '):
            a, b = s[6:].split('=>')
            spec['calls'].append((a.strip(), b.strip(), True))
        elif s.startswith('call '):
            a, b = s[5:].split('=>')
            spec['calls'].append((a.strip(), b.strip()))
        elif s.startswith('throws '):
            spec['throws'] += s[7:].split()
        elif s.startswith('sub* ') or s.startswith('sub '):
            opt = s.startswith('sub* ')
            rest = s[5:] if opt else s[4:]
            if ' => ' in rest:
                a, b = rest.split(' => ', 1)
            elif rest.endswith(' =>'):
                a, b = rest[:-3], ''
            else:
                raise ExtractionError('bad sub rule: %r' % s)
            spec['subs'].append((a.strip(), b.strip(), opt))
        else:
            raise ExtractionError('extract: unknown key %r' % s)
    return spec


def do_extract(spec, cnt, exc_types, info):
    relfile = spec['file']
    src = read_src(relfile)
    ret, params, body, boff, is_const = find_function(src, spec['qual'], spec['pick'], spec['params'],
                                                      spec['inclass'])
    cname = spec['as']
    cnt.hit('R2_function_located')
    if spec['fragment']:
        # a contiguous fragment of a (large) function body, verified as a function of its own: the text between the
        # first match of START and the end of the first following match of END, verbatim; the signature (its free
        # variables) is given by `sig`
        ms = re.search(spec['fragment'][0], body)
        if ms and spec['fragment'][1] == '@balanced':
            # END = the brace that closes the first brace opened at/after START (a whole loop or block, whatever it contains)
            ob = body.find('{', ms.start())
            if ob < 0:
                raise ExtractionError('%s: fragment @balanced: no opening brace after the start marker' % cname)
            cb = match_close(body, ob, '{', '}')
            me = re.compile(r'(?s).*').match(body[ms.end():cb + 1]) if cb > 0 else None
        else:
            me = re.search(spec['fragment'][1], body[ms.end():]) if ms else None
        if not ms or not me:
            raise ExtractionError('%s: fragment markers not found' % cname)
        frag = body[ms.start():ms.end() + me.end()]
        if frag.count('{') != frag.count('}'):
            raise ExtractionError('%s: fragment is not brace-balanced' % cname)
        boff = boff + ms.start()
        body = '{' + frag + '}'
        if not spec['sig']:
            raise ExtractionError('%s: fragment needs a sig' % cname)
        msig = re.match(r'^(.*?)\b(\w+)\s*\((.*)\)\s*$', spec['sig'])
        ret, params = msig.group(1).strip(), msig.group(3)
        cnt.hit('fragment_extracted')
    base_line = line_of(src, boff)
    ret = re.sub(r'\b(inline|static|virtual|XMLUTIL_EXPORT|XMLPARSER_EXPORT|explicit)\b', ' ', ret)
    ret = ' '.join(ret.split())
    if spec.get('template_ok'):
        # R15: member function of a class template defined out of line (`template <class TElem> void C<TElem>::f(..)`): the
        # template prefix is stripped; the unit instantiates the parameter(s) with a typedef (e.g. `typedef int TElem;`)
        ret, ntp = re.subn(r'\btemplate\s*<[^<>]*>', ' ', ret)
        ret = ' '.join(ret.split())
        if ntp:
            cnt.hit('R15_template_prefix', ntp)
    if 'template' in ret or '<' in ret:
        raise ExtractionError('%s: template function not in subset' % cname)
    if spec.get('retref'):
        # R16: a method returning a reference to an lvalue (`T& f(..) { .. return lv; }`) is emitted as returning a pointer
        if not ret.endswith('&'):
            raise ExtractionError('%s: retref but the return type %r is not a reference' % (cname, ret))
        ret = ret[:-1].strip() + '*'
    if spec.get('retself'):
        # R14: a method `Class& m(..)` whose every return is `return *this;` (chaining operators) becomes a void function
        if not ret.endswith('&'):
            raise ExtractionError('%s: retself but the return type %r is not a reference' % (cname, ret))
        ret = 'void'
    dummy = Counter()
    ret = rw_quals(ret, dummy)
    # R17: a template-id in a parameter type (`RefVectorOf<KVStringPair>& toFill`) is mangled to an identifier
    # (`RefVectorOf_KVStringPair`); the unit supplies that type (a sink / model of the container)
    params, ntid = re.subn(r'\b([A-Za-z_]\w*)\s*<\s*([A-Za-z_]\w*)\s*>', r'\1_\2', params)
    if ntid:
        cnt.hit('R17_template_id_param', ntid)
    # R17b (additive): template-ids the pattern above does not take -- several arguments, pointer arguments, multi-word
    # arguments: `RefHashTableOf<XSAnnotation, PtrHasher>` -> RefHashTableOf_XSAnnotation_PtrHasher,
    # `ValueVectorOf<SchemaElementDecl*>` -> ValueVectorOf_SchemaElementDecl_p, `ValueVectorOf<unsigned int>` -> ValueVectorOf_unsigned_int
    def _mangle_tid(mm):
        return mm.group(1) + '_' + '_'.join(mm.group(2).replace('*', ' p ').replace(',', ' ').split())
    params, ntid2 = re.subn(r'\b([A-Za-z_]\w*)\s*<\s*([A-Za-z_][\w\s,\*]*?)\s*>', _mangle_tid, params)
    if ntid2:
        cnt.hit('R17b_template_id_param', ntid2)
    if spec.get('constref_byvalue'):
        # R18: `const T& x` with T a scalar type is passed by value (same meaning as long as the body neither takes the
        # address of x nor aliases it -- the body is checked for `&x`); needed where call sites pass rvalues / assignment
        # expressions, which C cannot take the address of
        def _byval(mm):
            cnt.hit('R18_constref_byvalue')
            return 'const %s %s' % (mm.group(1), mm.group(2))
        params, nbv = re.subn(r'\bconst\s+(%s)\s*&\s*(\w+)' % '|'.join(re.escape(t) for t in SCALAR_TYPES), _byval, params)
        if nbv == 0:
            raise ExtractionError('%s: constref-byvalue did not fire' % cname)
        for mm in re.finditer(r'\bconst\s+(?:%s)\s+(\w+)' % '|'.join(re.escape(t) for t in SCALAR_TYPES), params):
            if re.search(r'&\s*%s\b' % re.escape(mm.group(1)), body):
                raise ExtractionError('%s: constref-byvalue but the body takes the address of %s' % (cname, mm.group(1)))
    cparams, refs = convert_params(rw_quals(params, dummy), cnt)
    if spec['selfparam']:
        sp = 'struct %s* self' % spec['selfparam']
        cparams = sp if cparams == 'void' else sp + ', ' + cparams
    retexpr = spec['ret']
    if retexpr is None:
        retexpr = '' if ret.strip() == 'void' else '0'
    info.setdefault('_sigs', {})[cname] = [i + (1 if spec['selfparam'] else 0) for i in ref_positions(rw_quals(params, dummy))]
    if spec['decl_only']:
        # contract-only callee: the signature comes from the real definition, the body is not used
        out = ['/* ---- contract-only (body not verified in this unit): %s  (%s:%d) ---- */' % (spec['qual'], relfile, base_line)]
        out += spec['pre']
        out.append('%s %s(%s)' % (ret, cname, cparams.replace('&', '*')))
        out.append('#line 1 "contract:%s"' % cname)
        out += spec['contract']
        out.append(';')
        out.append('#line 1 "unit-after-%s"' % cname)
        info['functions_contract_only'] = info.get('functions_contract_only', []) + [
            {'qualified': spec['qual'], 'c_name': cname, 'file': relfile, 'line': base_line}]
        cnt.hit('contract_only_decl')
        return '\n'.join(out) + '\n'
    # --- body rewrites (order matters)
    body = rw_throws(body, cnt, exc_types)
    body = rw_casts(body, cnt)
    for a, b, opt in spec['subs']:
        b2 = b.replace('\\n', '\n')
        body, n = re.subn(a, b2, body)
        if n == 0 and not opt:
            raise ExtractionError('%s: sub rule %r did not fire' % (cname, a))
        cnt.hit('sub_rule', n)
    for so_var, so_put, so_get in spec.get('streamops', []):
        body = rw_streamops(body, so_var, so_put, so_get, cnt, cname)
    if spec.get('retref') and not spec['decl_only']:
        body, nrr = re.subn(r'\breturn\b\s*([^;\s][^;]*);', r'return &(\1);', body)
        if nrr == 0:
            raise ExtractionError('%s: retref but no return statement' % cname)
        cnt.hit('R16_retref', nrr)
    if spec.get('retself') and not spec['decl_only']:
        rets = re.findall(r'\breturn\b([^;]*);', body)
        if not rets or any(r.strip() not in ('*this', '') for r in rets):
            raise ExtractionError('%s: retself but a return statement is not `return *this;`: %r' % (cname, rets))
        body = re.sub(r'\breturn\s*\*\s*this\s*;', 'return;', body)
        cnt.hit('R14_retself', len(rets))
    body = rw_quals(body, cnt)
    body = rw_calls(body, spec['calls'], cnt)
    body = rw_methods(body, spec['methods'], cnt)
    body = rw_ref_args(body, info.get('_sigs', {}), cnt)
    body = rw_try(body, retexpr, cnt)
    body = rw_after_throw(body, spec['throws'], retexpr, cnt)
    body = resolve_unwinds(body, retexpr, cnt)
    body, nloops, annotated = splice_loops(body, spec['loops'], base_line, relfile, cname, cnt)
    check_leftovers(body, cname)
    sig = '%s%s %s(%s)' % ('static ' if spec['static'] else '', ret, cname, cparams)
    out = []
    out.append('/* ---- extracted: %s  (%s:%d) ---- */' % (spec['qual'], relfile, base_line))
    for r in refs:
        out.append('#define %s (*%s_p)' % (r, r))
    out.append('#undef VERIF_RET')
    out.append('#define VERIF_RET %s' % retexpr)
    for l in spec['pre']:
        out.append(l)
    nat = native_wrapper(spec, cname, ret, cparams, sig) if spec['contract'] else None
    if nat:
        out.append('#ifdef VERIF_NATIVE')
        out.append('#define %s %s__impl' % (cname, cname))
        out.append('#endif')
    out.append(sig)
    if spec['contract']:
        out.append('#line 1 "contract:%s"' % cname)
        out += spec['contract']
    out.append('#line %d "%s"' % (base_line, relfile))
    out.append(body)
    out.append('#line 1 "unit-after-%s"' % cname)
    if nat:
        out.append('#ifdef VERIF_NATIVE')
        out.append('#undef %s' % cname)
        out.append(nat)
        out.append('#endif')
    for r in refs:
        out.append('#undef %s' % r)
    info.setdefault('_bodies', []).append(body)
    info['functions'].append({'qualified': spec['qual'], 'c_name': cname, 'file': relfile, 'line': base_line,
                              'loops': nloops, 'loops_annotated': annotated,
                              'body_sha1': hashlib.sha1(body.encode()).hexdigest()[:12],
                              'contract_clauses': sum(1 for l in spec['contract'] if '__CPROVER_' in l)})
    return '\n'.join(out) + '\n'



# ---------------------------------------------------------------------------------------------
# native replay support: evaluate the ensures clauses of a contract around the real body (gcc build)
# ---------------------------------------------------------------------------------------------
def impl_to_c(e):
    """cbmc's `A ==> B` (lowest precedence, right associative) -> (!(A) || (B)), recursively inside parentheses"""
    # first recurse into parenthesised groups
    out = []
    i = 0
    n = len(e)
    while i < n:
        if e[i] == '(':
            j = match_close(e, i)
            out.append('(' + impl_to_c(e[i + 1:j]) + ')')
            i = j + 1
        else:
            out.append(e[i])
            i += 1
    e2 = ''.join(out)
    # now split at top level
    d = 0
    for k in range(len(e2) - 2):
        c = e2[k]
        if c in '([':
            d += 1
        elif c in ')]':
            d -= 1
        elif d == 0 and e2.startswith('==>', k):
            return '(!(' + e2[:k].strip() + ') || (' + impl_to_c(e2[k + 3:]).strip() + '))'
    return e2


def native_wrapper(spec, cname, ret, cparams, sig):
    text = '\n'.join(spec['contract'])
    text = strip_comments(text)
    clauses = []
    pos = 0
    while True:
        m = re.search(r'__CPROVER_ensures\s*\(', text[pos:])
        if not m:
            break
        k = pos + m.end() - 1
        pc = match_close(text, k)
        clauses.append(' '.join(text[k + 1:pc].split()))
        pos = pc + 1
    if not clauses:
        return None
    names = []
    if cparams.strip() != 'void':
        for p_ in split_top(cparams):
            mm = re.search(r'(\w+)\s*(\[\w*\])?\s*$', p_.strip())
            names.append(mm.group(1))
    olds = []
    checks = []
    skipped = 0
    is_void = ret.strip() == 'void'
    for ci, e in enumerate(clauses):
        e = e.replace('__CPROVER_return_value', 'verif_r')
        # olds
        while True:
            m = re.search(r'__CPROVER_old\s*\(', e)
            if not m:
                break
            k = m.end() - 1
            pc = match_close(e, k)
            inner = e[k + 1:pc]
            olds.append(inner)
            e = e[:m.start()] + 'verif_old_%d' % (len(olds) - 1) + e[pc + 1:]
        if '__CPROVER_' in e or (is_void and 'verif_r' in e):
            skipped += 1
            continue
        checks.append((ci + 1, impl_to_c(e)))
    if any('__CPROVER_' in o_ for o_ in olds):
        return None
    lines = ['/* native wrapper: re-evaluates %d of %d ensures clauses around the real body */' % (len(checks), len(clauses))]
    lines.append(sig.replace('static ', ''))
    lines.append('{')
    for i, o_ in enumerate(olds):
        lines.append('  __typeof__(%s) verif_old_%d = (%s);' % (o_, i, o_))
    call = '%s__impl(%s)' % (cname, ', '.join(names))
    if is_void:
        lines.append('  %s;' % call)
    else:
        lines.append('  __typeof__(%s) verif_r = %s;' % (call, call))
    for ci, c in checks:
        lines.append('  if (!(%s)) verif_native_post_failed("%s", %d);' % (c, cname, ci))
    if not is_void:
        lines.append('  return verif_r;')
    lines.append('}')
    return '\n'.join(lines)

# ---------------------------------------------------------------------------------------------
# template processing
# ---------------------------------------------------------------------------------------------
def parse_kv(args):
    d = {}
    for a in args:
        if '=' in a:
            k, v = a.split('=', 1)
            d[k] = v
        else:
            d[a] = True
    return d


def process(template_path):
    with open(template_path) as f:
        text = f.read()
    incdir = os.path.join(os.path.dirname(os.path.dirname(os.path.abspath(template_path))), 'contracts')
    for _ in range(8):
        mi = re.search(r'^//@ include (\S+)[ \t]*$', text, re.M)
        if not mi:
            break
        ip = os.path.join(incdir, mi.group(1))
        if not os.path.exists(ip):
            raise ExtractionError('include file missing: %s' % ip)
        text = text[:mi.start()] + open(ip).read() + text[mi.end():]
    stem = os.path.basename(template_path)
    if stem.endswith('.u.c'):
        stem = stem[:-4]
    cnt = Counter()
    exc_types = set()
    info = {'unit': None, 'props': [], 'kind': 'P', 'defs': {'quick': [], 'thorough': [], 'all': []},
            'cbmc': {'quick': [], 'thorough': [], 'all': []}, 'enforce': [], 'replace': [], 'entry': None,
            'notes': [], 'functions': [], 'template': template_path, 'native': None, 'mem': None, 'timeout': None,
            'expect_fail': []}
    out = []
    # block directives first
    pos = 0
    chunks = []
    for m in re.finditer(r'/\*@extract\s+(.*?)@\*/', text, re.S):
        chunks.append(('text', text[pos:m.start()]))
        chunks.append(('extract', m.group(1)))
        pos = m.end()
    chunks.append(('text', text[pos:]))
    # pass 1: extract blocks (independent of the surrounding text)
    extracted = {}
    for ci, (kind, c) in enumerate(chunks):
        if kind == 'extract':
            spec = parse_extract_block(c)
            extracted[ci] = do_extract(spec, cnt, exc_types, info)
    used_text = '\n'.join(extracted.values()) + '\n' + '\n'.join(c for k, c in chunks if k == 'text')
    used_tokens = set(re.findall(r'\bf[A-Za-z]\w*', used_text))
    for ci, (kind, c) in enumerate(chunks):
        if kind == 'extract':
            out.append(extracted[ci])
            continue
        for ln in c.split('\n'):
            s = ln.strip()
            if not s.startswith('//@'):
                out.append(ln)
                continue
            parts = s[3:].split()
            if not parts:
                continue
            key, args = parts[0], parts[1:]
            if key == 'unit':
                info['unit'] = args[0]
                if args[0] != stem:
                    raise ExtractionError('unit name %s != file stem %s' % (args[0], stem))
            elif key == 'props':
                info['props'] = args
            elif key == 'kind':
                info['kind'] = args[0]
            elif key == 'def':
                info['defs'][args[0]] += args[1:]
            elif key == 'cbmc':
                info['cbmc'][args[0]] += args[1:]
            elif key == 'enforce':
                info['enforce'] += args
            elif key == 'replace':
                info['replace'] += args
            elif key == 'entry':
                info['entry'] = args[0]
            elif key == 'note':
                info['notes'].append(' '.join(args))
            elif key == 'mem':
                info['mem'] = int(args[0])
            elif key == 'timeout':
                info['timeout'] = {a.split('=')[0]: int(a.split('=')[1]) for a in args}
            elif key == 'native':
                info['native'] = ' '.join(args)
            elif key == 'table':
                cname = args[1]
                if len(args) >= 4 and args[2] == 'as':
                    cname = args[3]
                out.append(gen_table(args[0], args[1], cname, cnt, static='nonstatic' not in args, asenum='asenum' in args))
                out.append('#line 1 "unit-after-table-%s"' % cname)
            elif key == 'struct':
                kv = parse_kv(args[2:])
                opts = {}
                if 'name' in kv:
                    opts['name'] = kv['name']
                if 'self' in kv:
                    opts['self'] = None if kv['self'] == 'none' else kv['self']
                if 'only' in kv:
                    opts['only'] = sorted(used_tokens) if kv['only'] == 'auto' else kv['only'].split(',')
                if 'enums' in kv:
                    opts['enums'] = {e: 'int' for e in kv['enums'].split(',')}
                if 'structs' in kv:
                    opts['structs'] = kv['structs'].split(',')
                if 'scope' in kv:
                    opts['scope'] = kv['scope']
                if 'plain' in kv:
                    opts['plain'] = True
                ov = {}
                for k, v in kv.items():
                    if k.startswith('ov:'):
                        ov[k[3:]] = v.replace('~', ' ')
                if ov:
                    opts['override'] = ov
                st, names = gen_struct(args[0], args[1], opts, cnt)
                out.append(st)
            elif key == 'macro':
                out.append(gen_macro(args[0], args[1], cnt, exc_types))
                out.append('#line 1 "unit-after-macro-%s"' % args[1])
            elif key == 'define':
                out.append(gen_define(args[0], args[1], cnt))
                out.append('#line 1 "unit-after-define-%s"' % args[1])
            elif key == 'opaque':
                for a_ in args:
                    out.append('typedef struct %s %s;' % (a_, a_))
            elif key == 'rebind':
                # R13: a named size constant is rebound by -D; record original value, check later
                src_r = read_src(args[0])
                mm = re.search(r'\b%s\s*=\s*([^,}\n;]+)' % re.escape(args[1]), src_r)
                if not mm:
                    raise ExtractionError('rebind: %s not found in %s' % (args[1], args[0]))
                expr = mm.group(1).strip()
                if not re.fullmatch(r'[\d\s\*\+x0-9a-fA-F\(\)]+', expr):
                    raise ExtractionError('rebind: cannot evaluate %r' % expr)
                val = eval(expr)
                info.setdefault('rebinds', []).append({'name': args[1], 'original': val, 'expr': expr})
                info['notes'].append('R13: size constant %s (=%d in /repo) is rebound by -D for this unit; the code is assumed parametric in it' % (args[1], val))
                cnt.hit('R13_rebind')
            elif key == 'enum':
                kv = parse_kv(args[3:])
                out.append(gen_enum(args[0], args[1], args[2], cnt, scope=kv.get('scope')))
            elif key == 'tier':
                info['tiers'] = args      # the unit belongs to these tiers only (vf/check.py selects)
            else:
                raise ExtractionError('unknown directive //@ %s' % key)
    if not info['unit']:
        raise ExtractionError('template without //@ unit')
    if not info['entry']:
        raise ExtractionError('template without //@ entry')
    for rb in info.get('rebinds', []):
        for fn_text in info.get('_bodies', []):
            if re.search(r'\b%d\b' % rb['original'], fn_text) or rb['expr'].replace(' ', '') in fn_text.replace(' ', ''):
                raise ExtractionError('R13: literal spelling of %s (%d) occurs in an extracted body' % (rb['name'], rb['original']))
    info.pop('_bodies', None)
    info.pop('_sigs', None)
    info['rules_fired'] = dict(cnt)
    info['exception_types'] = sorted(exc_types)
    return '\n'.join(out), info


if __name__ == '__main__':
    try:
        c, info = process(sys.argv[1])
    except ExtractionError as e:
        print('EXTRACTION-BREAK: %s' % e, file=sys.stderr)
        sys.exit(2)
    sys.stdout.write(c)
    import json
    sys.stderr.write(json.dumps(info, indent=1) + '\n')
