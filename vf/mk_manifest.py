#!/usr/bin/env python3
"""Regenerate /verif/MANIFEST.json from the table below (kept in one place so that claimed / not-applicable stay in sync)."""
import glob, json, os, re
VERIF = os.path.dirname(os.path.dirname(os.path.abspath(__file__)))

CLAIMED = {
 # id: (category, text, design_ref, level_note, technique)
}
NOT_APPLICABLE = {
}
exec(open(os.path.join(VERIF, 'vf', 'claims.py')).read())

def units_of(p):
    n = 0
    for t in glob.glob(os.path.join(VERIF, 'units', '*.u.c')):
        m = re.search(r'^//@ props (.*)$', open(t).read(4000), re.M)
        if m and p in m.group(1).split():
            n += 1
    return n

checks = []
for pid in sorted(CLAIMED):
    cat, text, ref, note, tech = CLAIMED[pid]
    assert units_of(pid) > 0, pid
    checks.append({
        'property_id': pid,
        'quick_cmd': './check %s --tier quick' % pid,
        'thorough_cmd': './check %s --tier thorough' % pid,
        'evidence_file': '/verif/evidence/%s.json' % pid,
        'replay_cmd_template': 'python3 vf/replay.py {path}',
        'engine': 'cbmc-contracts',
        'level_claimed': {'category': cat, 'text': text, 'design_ref': ref},
        'level_note': note,
        'technique': tech,
    })
m = {
 'version': 1,
 'setup_cmd': 'python3 vf/setup.py',
 'hooks': {'guard': 'APACHE_XERCES_C_VERIF', 'enable': 'none needed: contracts are sidecar text in /verif/units spliced into bodies extracted from /repo on every run; no hook code exists in /repo',
           'baseline_off_cmd': 'cmake --build /repo/_build -j8 && ctest --test-dir /repo/_build -j8 --timeout 900', 'source_commits': HOOK_COMMITS, 'add_only': True},
 'engines': [{'name': 'cbmc-contracts', 'path': '/verif/vf', 'serves_properties': sorted(CLAIMED),
              'kind_free_text': 'x2c mechanical extraction of real function bodies to C + CBMC 6.11 code contracts (legacy two-step instrumentation), MiniSat back end'}],
 'checks': checks,
 'notes': NOTES,
 'not_applicable': [{'property_id': k, 'reason': NOT_APPLICABLE[k]} for k in sorted(NOT_APPLICABLE)],
}
allp = [json.loads(l)['id'] for l in open(os.path.join(VERIF, 'properties.jsonl'))]
assert sorted(list(CLAIMED) + list(NOT_APPLICABLE)) == sorted(allp), 'every property must be claimed or not_applicable'
json.dump(m, open(os.path.join(VERIF, 'MANIFEST.json'), 'w'), indent=1)
print('MANIFEST.json: %d claimed, %d not applicable' % (len(CLAIMED), len(NOT_APPLICABLE)))
