#!/usr/bin/env python3
"""Replay files for failed obligations (DESIGN §2.5).

write_replay() always writes /verif/replays/<prop>/<unit>.<obligation>.json naming the failed obligation, its
source line, cbmc's result for it and the input objects of the counterexample trace.  When the unit can be
run natively (no callee replaced by a contract, or native stubs supplied under VERIF_NATIVE), the extracted text
is compiled with gcc + ASan/UBSan, fed the trace's inputs and the harness assertions / contract clauses are
re-evaluated; `confirmed` is True only if that native run reproduces a failure.
"""
import json
import os
import re
import subprocess

HERE = os.path.dirname(os.path.abspath(__file__))
VERIF = os.path.dirname(HERE)


def _safe(s):
    return re.sub(r'[^A-Za-z0-9_.-]+', '_', s)[:80]


def write_replay(prop, r, o, tier):
    d = os.path.join(VERIF, 'replays', prop)
    os.makedirs(d, exist_ok=True)
    path = os.path.join(d, '%s.%s.json' % (_safe(r['unit']), _safe(o['name'])))
    rec = {
        'property': prop,
        'unit': r['unit'],
        'tier': tier,
        'obligation': o['name'],
        'description': o['description'],
        'source_in_repo_or_contract': '%s:%s' % (o.get('file'), o.get('line')),
        'function': o.get('function'),
        'verifier': 'cbmc 6.11.0',
        'verifier_status': o['status'],
        'counterexample_inputs': o.get('inputs'),
        'cbmc_trace_file': o.get('trace_file'),
        'build_dir': r.get('build_dir'),
        'commands': r.get('cmds'),
        'native_replay': None,
    }
    confirmed = False
    try:
        import native
        nr = native.replay_unit(r, o)
        rec['native_replay'] = nr
        confirmed = bool(nr and nr.get('confirmed'))
    except ImportError:
        rec['native_replay'] = {'confirmed': False, 'why': 'native replay not available'}
    except Exception as e:  # never let replay machinery turn into a crash of the check
        rec['native_replay'] = {'confirmed': False, 'why': 'native replay error: %r' % e}
    if not confirmed:
        rec['result'] = 'no-failing-input-found'
    else:
        rec['result'] = 'confirmed-natively'
    with open(path, 'w') as f:
        json.dump(rec, f, indent=1)
    return path, confirmed


if __name__ == '__main__':
    import sys
    rec = json.load(open(sys.argv[1]))
    print(json.dumps({k: rec[k] for k in ('property', 'unit', 'obligation', 'description', 'result')}, indent=1))
    print('inputs:', json.dumps(rec.get('counterexample_inputs'))[:2000])
    if rec.get('native_replay'):
        print('native:', json.dumps(rec['native_replay'])[:2000])
