#!/usr/bin/env python3
"""setup_cmd: offline; checks the tools are present and runs the extractor self-test."""
import os, shutil, subprocess, sys
HERE = os.path.dirname(os.path.abspath(__file__))
ok = True
for tool in ('cbmc', 'goto-cc', 'goto-instrument', 'gcc', 'g++'):
    if not shutil.which(tool):
        print('missing tool', tool); ok = False
os.makedirs(os.path.join(os.path.dirname(HERE), 'build'), exist_ok=True)
if ok and os.path.exists(os.path.join(HERE, 'selftest.py')):
    ok = subprocess.call([sys.executable, os.path.join(HERE, 'selftest.py')]) == 0
sys.exit(0 if ok else 1)
