# Claims table consumed by vf/mk_manifest.py.  A property moves from NOT_APPLICABLE to CLAIMED only when its
# units exist and pass on the unchanged tree.
HOOK_COMMITS = []
NOTES = ('Contract-based deductive verification only (CBMC code contracts on function bodies extracted mechanically '
         'from /repo on every run). Exit 0 = all obligations discharged; 1 = VIOLATION; 2 = UNDECIDED (time-out, '
         'extraction break, vacuity guard) and is never reported as a violation. See DESIGN.md.')
_PENDING = 'units for this property are not built yet (see DESIGN.md section 7); not claimed until they exist and pass'
CLAIMED = {
 'C01': ('proof',
         'Component-level proof of memory safety / no UB / termination for the functions every parse goes through: the XMLReader '
         'buffer machinery and scanning functions, XMLBuffer, the element stack, the intrinsic transcoders, XMLString utilities, '
         'memory streams, ValueVectorOf, CMStateSet, message formatting, reader-stack ownership, the serialisation engine '
         'primitives and the scanner leaves listed in the evidence; every obligation of every listed function is discharged '
         'for all inputs within the stated buffer bounds. Not a whole-parser claim.',
         'DESIGN.md 3-C01',
         'Buffer constants rebound / lengths bounded per unit; callees replaced by contracts are proved in their own units or '
         'listed as assumed; scanner bodies, DTDScanner, TraverseSchema, buildDFA, RegxParser and everything reached only through '
         'them are not covered.',
         'CBMC function and loop contracts + bounds/pointer/overflow checks on extracted real bodies'),
 'C02': ('proof',
         'Component-level proof that the predicates and leaf scanners the well-formedness verdict rests on implement the '
         'productions: both 64K character tables against XML 1.0 (5th ed.) / 1.1 productions for all 2^16 characters, the name '
         'validators, the error-severity partition, and - over a reader abstraction, complete up to a stated input length - '
         'character references, comments, PIs, CDATA sections, character data (all four scanners), attribute values, the '
         'attribute-list state machine, end tags, the XML declaration, namespace-declaration constraints, duplicate-attribute '
         'detection and entity recursion detection.',
         'DESIGN.md 3-C02',
         'Reader abstraction / emitError / handler sinks are trusted stubs; scanner-level units are complete only up to the '
         'stated input length; DTD internal-subset scanning, entity expansion and the dispatch in scanContent/scanStartTag are '
         'not covered.',
         'CBMC complete unwinding over bounded symbolic inputs + full-domain table proofs on extracted real bodies'),
 'C06': ('proof',
         'Component-level proof for the namespace mechanisms: ElemStack prefix maps (innermost binding wins, growth preserves '
         'entries), updateNSMap reserved-prefix constraints (DG/IG/SG), duplicate expanded attribute names, the SAX2 '
         'prefix-mapping pass, DOM Level 3 lookupNamespaceURI / lookupPrefix / isDefaultNamespace over a harness tree, the DOM '
         'serializer scope search, QName splitting, the WF scanner\'s two-pass start tag (declarations written after their use), '
         'the IG/SG namespace pre-pass and the declarations supplied by DTD defaults.',
         'DESIGN.md 3-C06',
         'XMLStringPool ids assumed injective; the multi-row look-up and DOM tree units are bounded (depth <= 3); '
         'scanStartTagNS/buildAttList as wholes and the SAX2/DOM adapters outside the extracted fragments are not covered.',
         'CBMC code contracts + bounded complete unwinding on extracted real bodies and fragments'),
 'C07': ('proof',
         'Component-level proof for the validity kernels only: SimpleContentModel, MixedContentModel and the DFA table walk '
         'accept exactly the language of the model (all child sequences up to a stated length), CMStateSet set operations, and the '
         'attribute-value checks of DTDValidator::validateAttrValue (fragment), the syntax-tree node classes buildDFA starts from '
         '(nullable / firstpos / lastpos of CMUnaryOp, CMBinaryOp, CMLeaf, CMAny) and the per-element state of ElemStack::addLevel. '
         'buildDFA itself, DTDScanner and the validation driver are not covered.',
         'DESIGN.md 3-C07',
         'Names are ids (equal iff same id); DFA transition tables are arbitrary tables satisfying the stated invariant, not '
         'the output of buildDFA; known findings listed in known_findings.txt.',
         'CBMC complete unwinding over bounded symbolic inputs on extracted real bodies'),
 'C08': ('proof',
         'Component-level proof for the particle-matching kernels shared with C07 plus AllContentModel and the counting-state '
         '(minOccurs/maxOccurs) DFA walk against a counting-automaton reference; ComplexTypeInfo::expandContentModel (occurrence '
         'range -> tree admitting exactly min..max repetitions), the xsi:type derivation/block check of SchemaValidator::validateElement, '
         'the substitution-group derivation/block check, the attribute wildcard of derived complex types (fragment of '
         'TraverseSchema::processAttributes). TraverseSchema and SchemaValidator as wholes and buildDFA are not covered.',
         'DESIGN.md 3-C08',
         'Same modelling as C07; one known finding (counting state + wildcard) listed in known_findings.txt.',
         'CBMC complete unwinding over bounded symbolic inputs on extracted real bodies'),
 'C09': ('proof',
         'Component-level proof for the value-level kernels: Gregorian helpers, parseInt (no wrap-around), normalize, '
         'compareOrder/compareResult and the duration reference table of XMLDateTime; XMLBigInteger / XMLBigDecimal parsing '
         'and comparison (value-space equality of all lexical zeros, antisymmetry, transitivity); Base64 / HexBin lexical spaces '
         'incl. padding bits; textToBin/parseInt range; schema whitespace facets; the float/double order incl. INF/NaN '
         '(XMLAbstractDoubleFloat::compareValues); inheritFacet of the numeric and string validators; anyURI escaping. The other '
         'datatype validator code, lists/unions, float/double lexical parsing and XSValue are not covered.',
         'DESIGN.md 3-C09',
         'String lengths bounded per unit; year range bounded in quick tier; allocation modelled as fresh exact-size objects; '
         'one known finding (negative durations) in known_findings.txt.',
         'CBMC code contracts + complete unwinding over bounded symbolic inputs on extracted real bodies'),
 'C11': ('other',
         'BOUNDED stand-ins only, never counted as proved: RangeToken range algebra (addRange, sort/compact, merge, subtract, '
         'intersect, complement, match/doCreateMap) against set semantics over a ghost code point with <= 2-3 ranges per operand '
         'over a small code-point universe, and BMPattern::matches for short patterns; plus two complete units on single functions '
         '(doTokenOverlap: soundness of the non-backtracking closure optimisation; processBackReference). The rest of the parser, Op '
         'compilation and the backtracking matcher are not covered; the property as a whole is not decided.',
         'DESIGN.md 3-C11',
         'Bounds stated per unit in the evidence (bounded_units); arena allocation model.',
         'CBMC bounded unwinding with unwinding assertions on extracted real bodies (bounded stand-in)'),
 'C03': ('proof',
         'Component-level proof: the normalisation mechanisms (end-of-line handling and line/column tracking of XMLReader, '
         'attribute-value normalisation of the IG/SG scanners, character references, comments, PIs, CDATA sections and character '
         'data of the scanners over a reader abstraction) deliver exactly what XML 1.0/1.1 prescribes for every input in the stated '
         'domain; not a claim about the API adapters or about whole documents.',
         'DESIGN.md 3-C03',
         'Reader abstraction, emitError/handler sinks and XMLBuffer models are trusted stubs; scanner-level units are complete only '
         'up to the stated input length; SAX/DOM adapters, entity expansion and DTD defaulting are not covered.',
         'CBMC code contracts + complete unwinding over bounded symbolic inputs on extracted real bodies'),
 'C04': ('proof',
         'Component-level proof of refill transparency: refreshRawBuffer / xcodeMoreChars / refreshCharBuffer preserve every unread '
         'byte and character in order for every stream read size and refill position (ghost-index contracts), every reader look-ahead '
         'operation is proved against a postcondition over the logical unread sequence with the refill replaced by that contract, and '
         'the intrinsic transcoders consume whole characters only; refreshRawBuffer fills the raw buffer until it is full or the stream '
         'is at its end, so what is sensed and decoded does not depend on the stream\'s read sizes.',
         'DESIGN.md 3-C04',
         'Buffer constants rebound to small values (code assumed parametric in them); ICU transcoders and non-memory streams assumed to '
         'satisfy the interface contracts; scanner-level look-ahead spanning several reader calls is not covered.',
         'CBMC function and loop contracts (modular: callers checked against callee contracts) on extracted real bodies'),
 'C12': ('proof',
         'Component-level proof for the XMLFormatter kernels (escape sets for all 2^16 characters x modes x XML versions, character '
         'references, the formatBuf / handleUnEscapedChars / specialFormat loops incl. termination, MemBuf/LocalFile targets); '
         'DOMLSSerializer itself (DOM traversal, namespace fix-up) is not covered.',
         'DESIGN.md 3-C12',
         'Transcoder and target are interface contracts; DOM serializer and re-parse equality not covered.',
         'CBMC function and loop contracts + complete domain enumeration on extracted real bodies'),
 'C16': ('proof',
         'Component-level proof: the XSerializeEngine primitives (every operator<< / operator>> pair, raw byte blocks, '
         'fillBuffer/flushBuffer keep store and load cursors symmetric and in bounds); ~50 class-level serialize() methods and the 28 '
         'container store/load pairs of XTemplateSerializer over a tape engine (store then load restores every serialised member / '
         'every entry under the same keys; kinds and order match); storeDV/loadDV-style helper pairs; the level stamp, lock status '
         'and empty-pool guard of XMLGrammarPoolImpl::serializeGrammars / deserializeGrammars.',
         'DESIGN.md 3-C16',
         'Streams are ghost-tape stubs; raw block unit is a bounded stand-in (reported separately); sub-objects are opaque ids: the '
         'object-graph side (pointer pools, prototypes, what a class computes from what it loaded) and behavioural identity of the '
         'restored pool are not covered; one known finding (annotation of xs:notation) in known_findings.txt.',
         'CBMC code contracts (loop-free full-domain harnesses) on extracted real bodies'),
 'C05': ('proof',
         'Component-level proof: the intrinsic transcoders and the encoding probe satisfy specifications written from '
         'the Unicode Standard / XML Appendix F for every input in the stated domain; not a whole-document claim.',
         'DESIGN.md 3-C05',
         'Assumes extraction rules preserve semantics; ICU transcoders not covered (the registration of encoding names, their '
         'case-insensitive look-up and setEncoding\'s family check are); '
         'buffer lengths bounded per unit (stated in evidence).',
         'CBMC code contracts + complete unwinding over the full byte-sequence domain on extracted real bodies'),
}
NOT_APPLICABLE = {
 'C10': 'Identity constraints: ValueStore/XPathMatcher object graphs driven by the scanner event stream; value equality through virtual DatatypeValidator::compare.',
 'C13': 'DOM mutation: quantifier is operation histories over an unbounded heap shape across ~20 classes linked by dynamic_cast cross-casts; CBMC C++ front end rejects the sources and the textual extractor cannot flatten the hierarchy without hand-modelling it (a model, not the code).',
 'C14': 'Live lists/iterators/ranges under mutation: whole-history property over DOM object graphs (see C13).',
 'C15': 'History independence of a parser object: whole-object, whole-history property.',
 'C17': 'Thread safety: CBMC contracts have no concurrency semantics; schedules are not expressible.',
 'C18': 'MemoryManager discipline / Initialize-Terminate: ledger over the allocation history of the whole library including C++ destructors, which extraction drops.',
 'C19': 'External resources / entity limits: environment effects gated in ReaderMgr/scanner/TraverseSchema bodies outside the extractable subset.',
 'C20': 'XInclude: DOM-API code throughout (see C13).',
}
