# Claims table consumed by vf/mk_manifest.py.  A property moves from NOT_APPLICABLE to CLAIMED only when its
# units exist and pass on the unchanged tree.
HOOK_COMMITS = []
NOTES = ('Contract-based deductive verification only (CBMC code contracts on function bodies extracted mechanically '
         'from /repo on every run). Exit 0 = all obligations discharged; 1 = VIOLATION; 2 = UNDECIDED (time-out, '
         'extraction break, vacuity guard) and is never reported as a violation. See DESIGN.md.')
_PENDING = 'units for this property are not built yet (see DESIGN.md section 7); not claimed until they exist and pass'
CLAIMED = {
 'C03': ('proof',
         'Component-level proof: the normalisation mechanisms (end-of-line handling and line/column tracking of XMLReader, '
         'attribute-value normalisation of the IG/SG scanners, character references, comments, PIs, CDATA sections and character '
         'data of the scanners over a reader abstraction) deliver exactly what XML 1.0/1.1 prescribes for every input in the stated '
         'domain; not a claim about the API adapters or about whole documents.',
         'DESIGN.md 3-C03',
         'Reader abstraction, emitError/handler sinks and XMLBuffer models are trusted stubs; scanner-level units are complete only '
         'up to the stated input length; SAX/DOM adapters, entity expansion and DTD defaulting are not covered.',
         'CBMC code contracts + complete unwinding over bounded symbolic inputs on extracted real bodies'),
 'C04': ('proof',
         'Component-level proof of refill transparency: refreshRawBuffer / xcodeMoreChars / refreshCharBuffer preserve every unread '
         'byte and character in order for every stream read size and refill position (ghost-index contracts), every reader look-ahead '
         'operation is proved against a postcondition over the logical unread sequence with the refill replaced by that contract, and '
         'the intrinsic transcoders consume whole characters only.',
         'DESIGN.md 3-C04',
         'Buffer constants rebound to small values (code assumed parametric in them); ICU transcoders and non-memory streams assumed to '
         'satisfy the interface contracts; scanner-level look-ahead spanning several reader calls is not covered.',
         'CBMC function and loop contracts (modular: callers checked against callee contracts) on extracted real bodies'),
 'C12': ('proof',
         'Component-level proof for the XMLFormatter kernels (escape sets for all 2^16 characters x modes x XML versions, character '
         'references, the formatBuf / handleUnEscapedChars / specialFormat loops incl. termination, MemBuf/LocalFile targets); '
         'DOMLSSerializer itself (DOM traversal, namespace fix-up) is not covered.',
         'DESIGN.md 3-C12',
         'Transcoder and target are interface contracts; DOM serializer and re-parse equality not covered.',
         'CBMC function and loop contracts + complete domain enumeration on extracted real bodies'),
 'C16': ('proof',
         'Component-level proof for the XSerializeEngine primitives only: every operator<< / operator>> pair, raw byte blocks, '
         'fillBuffer/flushBuffer keep store and load cursors symmetric and in bounds; the ~60 class-level serialize() methods are '
         'not covered (a dropped field there is invisible to this check).',
         'DESIGN.md 3-C16',
         'Streams are ghost-tape stubs; raw block unit is a bounded stand-in (reported separately); class serialize() methods, '
         'XTemplateSerializer and object pools not covered.',
         'CBMC code contracts (loop-free full-domain harnesses) on extracted real bodies'),
 'C05': ('proof',
         'Component-level proof: the intrinsic transcoders and the encoding probe satisfy specifications written from '
         'the Unicode Standard / XML Appendix F for every input in the stated domain; not a whole-document claim.',
         'DESIGN.md 3-C05',
         'Assumes extraction rules preserve semantics; ICU transcoders and TransService alias tables not covered; '
         'buffer lengths bounded per unit (stated in evidence).',
         'CBMC code contracts + complete unwinding over the full byte-sequence domain on extracted real bodies'),
}
NOT_APPLICABLE = {
 'C01': _PENDING, 'C02': _PENDING, 'C06': _PENDING, 'C09': _PENDING,
 'C11': _PENDING, 
 'C07': 'DTD validity is decided by buildDFA/DTDValidator/DTDScanner: recursive C++ object graphs with virtual dispatch and templates; no contract within reach of the C extraction states "the DFA accepts the content model language".',
 'C08': 'Schema structure validation (TraverseSchema/SchemaValidator/ComplexTypeInfo): same reason as C07, larger.',
 'C10': 'Identity constraints: ValueStore/XPathMatcher object graphs driven by the scanner event stream; value equality through virtual DatatypeValidator::compare.',
 'C13': 'DOM mutation: quantifier is operation histories over an unbounded heap shape across ~20 classes linked by dynamic_cast cross-casts; CBMC C++ front end rejects the sources and the textual extractor cannot flatten the hierarchy without hand-modelling it (a model, not the code).',
 'C14': 'Live lists/iterators/ranges under mutation: whole-history property over DOM object graphs (see C13).',
 'C15': 'History independence of a parser object: whole-object, whole-history property.',
 'C17': 'Thread safety: CBMC contracts have no concurrency semantics; schedules are not expressible.',
 'C18': 'MemoryManager discipline / Initialize-Terminate: ledger over the allocation history of the whole library including C++ destructors, which extraction drops.',
 'C19': 'External resources / entity limits: environment effects gated in ReaderMgr/scanner/TraverseSchema bodies outside the extractable subset.',
 'C20': 'XInclude: DOM-API code throughout (see C13).',
}
