#!/usr/bin/env python3
"""Self-test of the machinery (run by setup_cmd): deliberately broken scratch copies of three source files must
each FAIL a named obligation, an unfindable function must be UNDECIDED (never a violation), and the unbroken
copy must be PROVED.  The scratch copy lives under /tmp/verif-selftest.<pid> and is removed before returning."""
import os, re, shutil, sys, tempfile
HERE = os.path.dirname(os.path.abspath(__file__))
sys.path.insert(0, HERE)
import x2c, pipeline

FILES = ['src/xercesc/util/XMLUTF8Transcoder.cpp', 'src/xercesc/util/XMLUTF8Transcoder.hpp',
         'src/xercesc/internal/XMLReader.cpp', 'src/xercesc/internal/XMLReader.hpp',
         'src/xercesc/util/TransService.cpp', 'src/xercesc/framework/XMLRecognizer.hpp',
         'src/xercesc/framework/XMLBuffer.hpp',
         'src/xercesc/util/XMLUniDefs.hpp', 'src/xercesc/util/XMLExceptMsgs.hpp',
         'src/xercesc/framework/XMLErrorCodes.hpp', 'src/xercesc/framework/XMLValidityCodes.hpp']

CASES = [
    # (unit, file, regex, replacement, expected status, expected obligation regex)
    ('utf8_from_w', 'src/xercesc/util/XMLUTF8Transcoder.cpp', r'\( \*\(srcPtr\+1\) < 0xA0\)', '( *(srcPtr+1) < 0x90)',
     'failed', r'ill-formed UTF-8'),
    ('rdr_getName', 'src/xercesc/internal/XMLReader.cpp', r'if \(fCharIndex\+1 >= fCharsAvail\)\s*\n\s*return false;', ';',
     'failed', r'loop invariant|requires clause|ensures'),
    ('utf8_from_w', 'src/xercesc/util/XMLUTF8Transcoder.cpp', r'XMLUTF8Transcoder::transcodeFrom', 'XMLUTF8Transcoder::transcodeFromX',
     'undecided', r''),
]


def main():
    real = x2c.REPO
    scratch = tempfile.mkdtemp(prefix='verif-selftest.')
    ok = True
    try:
        pipeline.gen_consts()
        for unit, f, pat, rep, want, obl in CASES:
            shutil.rmtree(os.path.join(scratch, 'src'), ignore_errors=True)
            for rel in FILES:
                os.makedirs(os.path.dirname(os.path.join(scratch, rel)), exist_ok=True)
                shutil.copy(os.path.join(real, rel), os.path.join(scratch, rel))
            p = os.path.join(scratch, f)
            s = open(p).read()
            s2, n = re.subn(pat, rep, s, count=1)
            if n != 1:
                print('selftest: mutation pattern did not apply for', unit, '(source changed?) -- skipped')
                continue
            open(p, 'w').write(s2)
            r = pipeline.run_unit(os.path.join(os.path.dirname(HERE), 'units', unit + '.u.c'), 'quick', repo=scratch,
                                  build_tag='selftest')
            got = r['status']
            names = ' | '.join(o['description'] for o in r.get('failed', []))
            good = (got == want) and (not obl or re.search(obl, names))
            print('selftest %-16s mutation %-28s -> %s %s %s' % (unit, rep[:28], got, 'OK' if good else 'UNEXPECTED (wanted %s)' % want,
                                                                   ('[' + names[:90] + ']') if names else (r.get('reason') or '')[:90]))
            ok = ok and good
            shutil.rmtree(r['build_dir'], ignore_errors=True)
    finally:
        x2c.REPO = real
        x2c._src_cache.clear()
        shutil.rmtree(scratch, ignore_errors=True)
    return 0 if ok else 1


if __name__ == '__main__':
    sys.exit(main())
