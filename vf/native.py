#!/usr/bin/env python3
"""Native replay of a cbmc counterexample on the extracted text of the real function(s).

The unit's generated C file is compiled with gcc (-DVERIF_NATIVE, ASan + UBSan): contract macros vanish, every
extracted function that has `ensures` clauses is wrapped so that those clauses are re-evaluated around the real body
(x2c.native_wrapper), harness assertions become run-time checks, VERIF_INPUT(x) loads the value cbmc chose for x.
A replay is `confirmed` when the native run reports a failed ensures clause / harness assertion, a sanitizer error,
or does not terminate.  Units whose callees were replaced by contracts have no native body for them: not replayable
(the violation is then reported with `no-failing-input-found`).
"""
import json
import os
import re
import subprocess

HERE = os.path.dirname(os.path.abspath(__file__))
VERIF = os.path.dirname(HERE)
import x2c  # noqa: E402

RT = r'''
#include <stdio.h>
#include <stdlib.h>
#include <string.h>
#include <unistd.h>
static int n_assert, n_post;
struct inp { char name[128]; unsigned char *bytes; size_t n; } inputs[256]; static int n_inputs;
static void load_file(void) {
  const char *p = getenv("VERIF_REPLAY_INPUTS"); if (!p) return;
  FILE *f = fopen(p, "r"); if (!f) return;
  static char line[1 << 20];
  while (fgets(line, sizeof line, f) && n_inputs < 256) {
    char *sp = strchr(line, ' '); if (!sp) continue; *sp++ = 0;
    size_t L = strlen(sp); while (L && (sp[L-1] == '\n' || sp[L-1] == ' ')) sp[--L] = 0;
    struct inp *in = &inputs[n_inputs++]; strncpy(in->name, line, 127); in->n = L / 2; in->bytes = malloc(in->n + 1);
    for (size_t i = 0; i < in->n; i++) { unsigned v; sscanf(sp + 2 * i, "%2x", &v); in->bytes[i] = (unsigned char)v; }
  }
  fclose(f);
}
void verif_native_load(const char *name, void *p, size_t n) {
  static int loaded; if (!loaded) { load_file(); loaded = 1; }
  memset(p, 0, n);
  for (int i = 0; i < n_inputs; i++) if (!strcmp(inputs[i].name, name)) {
    memcpy(p, inputs[i].bytes, inputs[i].n < n ? inputs[i].n : n);
    if (inputs[i].n != n) fprintf(stderr, "NATIVE-NOTE input %s: %zu bytes in trace, %zu in object\n", name, inputs[i].n, n);
    return; }
  fprintf(stderr, "NATIVE-NOTE input %s not in trace (zero)\n", name);
}
void verif_native_assume_failed(const char *c) { fprintf(stderr, "NATIVE-ASSUME-FAILED %s\n", c); fflush(stderr); _exit(77); }
void verif_native_assert_failed(const char *m) { fprintf(stderr, "NATIVE-ASSERT-FAIL %s\n", m); n_assert++; }
void verif_native_post_failed(const char *fn, int k) { fprintf(stderr, "NATIVE-POST-FAIL %s ensures#%d\n", fn, k); n_post++; }
extern void VERIF_ENTRY(void);
int main(void) { alarm(20); VERIF_ENTRY(); fprintf(stderr, "NATIVE-DONE assert_fail=%d post_fail=%d\n", n_assert, n_post); return (n_assert || n_post) ? 1 : 0; }
'''


def _bits_to_le(binary, width):
    v = int(binary, 2) if binary else 0
    return v.to_bytes(max(1, width // 8), 'little')


def layout(v):
    """value JSON of a cbmc trace -> (bytes, alignment) following the LP64 ABI (cbmc inserts explicit $pad members
    itself when it needs them; natural alignment is added here when it does not)"""
    if 'members' in v:
        out = b''
        al = 1
        for m in v['members']:
            b, a = layout(m['value'])
            if not m['name'].startswith('$pad'):
                while len(out) % a:
                    out += b'\0'
                al = max(al, a)
            out += b
        while len(out) % al:
            out += b'\0'
        return out, al
    if 'elements' in v:
        out = b''
        al = 1
        for e in v['elements']:
            b, a = layout(e['value'])
            out += b
            al = max(al, a)
        return out, al
    w = int(v.get('width', 8))
    if v.get('name') == 'pointer':
        return b'\0' * 8, 8
    if 'binary' in v:
        return _bits_to_le(v['binary'], w), max(1, w // 8)
    if v.get('name') == 'boolean' or v.get('data') in ('TRUE', 'FALSE'):
        return (b'\1' if v.get('data') == 'TRUE' else b'\0'), 1
    return b'\0' * max(1, w // 8), max(1, w // 8)


def inputs_from_trace(trace_file, obligation, entry):
    """pair each `verif_nd_ = <value>` step of the harness with the object assigned next"""
    data = json.load(open(trace_file))
    trace = None
    for it in data:
        for p in it.get('result', []) if isinstance(it, dict) else []:
            if p.get('property') == obligation and p.get('trace'):
                trace = p['trace']
    if trace is None:
        return None
    steps = [s for s in trace if s.get('stepType') == 'assignment'
             and (s.get('sourceLocation') or {}).get('function') == entry]
    res = {}
    for i, s in enumerate(steps):
        if s.get('lhs') != 'verif_nd_':
            continue
        for t in steps[i + 1:i + 4]:
            lhs = t.get('lhs', '')
            if lhs and lhs != 'verif_nd_':
                base = re.split(r'[.\[]', lhs)[0]
                b, _ = layout(s['value'])
                res[base] = b
                break
    return res


def to_native_text(csrc):
    """translate cbmc's ==> inside harness-level assert/assume calls"""
    out = []
    pos = 0
    pat = re.compile(r'\b(__CPROVER_assert|__CPROVER_assume|VERIF_ASSERT|VERIF_ASSUME)\s*\(')
    while True:
        m = pat.search(csrc, pos)
        if not m:
            break
        k = m.end() - 1
        try:
            pc = x2c.match_close(csrc, k)
        except Exception:
            break
        inner = csrc[k + 1:pc]
        out.append(csrc[pos:k + 1])
        if '==>' in inner:
            parts = x2c.split_top(inner)
            parts[0] = x2c.impl_to_c(parts[0])
            inner = ','.join(parts)
        out.append(inner)
        pos = pc
    out.append(csrc[pos:])
    return ''.join(out)


def replay_unit(r, o):
    info = r.get('info') or {}
    if info.get('replace'):
        return {'confirmed': False, 'why': 'unit replaces callees by contracts (%s): no native body to run' % ', '.join(info['replace'])}
    tf = o.get('trace_file')
    if not tf or not os.path.exists(tf):
        return {'confirmed': False, 'why': 'no counterexample trace from the verifier for this obligation'}
    bdir = r['build_dir']
    ins = inputs_from_trace(tf, o['name'], info['entry'])
    if ins is None:
        return {'confirmed': False, 'why': 'trace has no steps'}
    inp_path = os.path.join(bdir, 'replay.inputs')
    with open(inp_path, 'w') as f:
        for k, b in ins.items():
            f.write('%s %s\n' % (k, b.hex()))
    src = open(os.path.join(bdir, 'unit.c')).read()
    nsrc = os.path.join(bdir, 'unit_native.c')
    with open(nsrc, 'w') as f:
        f.write(to_native_text(src))
    rt = os.path.join(bdir, 'native_rt.c')
    with open(rt, 'w') as f:
        f.write(RT)
    tier = r.get('tier', 'quick')
    defs = info['defs']['all'] + info['defs'].get(tier, [])
    exe = os.path.join(bdir, 'replay.exe')
    cmd = ['gcc', '-std=gnu11', '-g', '-O0', '-w', '-fsanitize=address,undefined', '-DVERIF_NATIVE',
           '-DVERIF_ENTRY=' + info['entry'], '-I', os.path.join(VERIF, 'include'), '-I', os.path.join(VERIF, 'build', 'gen'),
           '-I', os.path.join(VERIF, 'spec')] + ['-D' + d for d in defs] + [nsrc, rt, '-o', exe]
    c = subprocess.run(cmd, capture_output=True, text=True)
    if c.returncode != 0:
        return {'confirmed': False, 'why': 'native build of the extracted text failed', 'build_log': c.stderr[-1500:], 'cmd': ' '.join(cmd)}
    env = dict(os.environ, VERIF_REPLAY_INPUTS=inp_path, ASAN_OPTIONS='detect_leaks=0:halt_on_error=1', UBSAN_OPTIONS='print_stacktrace=0')
    try:
        p = subprocess.run([exe], capture_output=True, text=True, timeout=40, env=env, errors='replace')
        err = p.stderr
        rc = p.returncode
    except subprocess.TimeoutExpired:
        return {'confirmed': True, 'what': 'native run did not terminate (40 s)', 'inputs_file': inp_path, 'cmd': ' '.join(cmd)}
    what = []
    for ln in err.splitlines():
        if ln.startswith(('NATIVE-POST-FAIL', 'NATIVE-ASSERT-FAIL')) or 'AddressSanitizer' in ln or 'runtime error:' in ln:
            what.append(ln.strip()[:300])
    if rc == -14 or 'Alarm clock' in err:
        what.append('native run killed by alarm(20): no termination')
    assumed_out = 'NATIVE-ASSUME-FAILED' in err
    return {'confirmed': bool(what) and not assumed_out, 'what': what[:8], 'exit': rc, 'assume_failed': assumed_out,
            'inputs_file': inp_path, 'inputs': {k: v.hex() for k, v in ins.items()}, 'cmd': ' '.join(cmd),
            'stderr_tail': err[-800:], 'note': 'replay runs the extracted text of the real function bodies (x2c) compiled natively'}
