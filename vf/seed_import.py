#!/usr/bin/env python3
"""Copy confirmed seeded changes from the mutation agents' output into /verif/seeded/<PROP>-<k>/"""
import json, os, re, shutil, sys
BASE = os.environ.get('SEED_BASE', '/tmp/mut')
TAG = os.environ.get('SEED_TAG', '')
for P in sys.argv[1:]:
    log = open('%s/%s.confirm.log' % (BASE, P)).read()
    for k in (1, 2, 3):
        src = '%s/%s.out/%d' % (BASE, P, k)
        m = re.search(r'^%s/%d: (.*)$' % (P, k), log, re.M)
        if not os.path.isdir(src) or not m:
            continue
        line = m.group(1)
        ok = 'demo_without=0' in line and 'build=0' in line and 'ctest=0' in line and '100% tests passed' in line and not line.rstrip().endswith('demo_with=0')
        if not ok:
            print('NOT CONFIRMED', P, k, line); continue
        dst = '/verif/seeded/%s-%s%d' % (P, TAG, k)
        shutil.rmtree(dst, ignore_errors=True); os.makedirs(dst)
        for fn in os.listdir(src):
            fp = os.path.join(src, fn)
            if os.path.isfile(fp) and os.path.getsize(fp) < 300000 and not fn.startswith('confirm_') and not os.access(fp, os.X_OK) or fn == 'run.sh':
                shutil.copy(fp, dst)
        meta = {}
        try: meta = json.load(open(os.path.join(src, 'meta.json')))
        except Exception: pass
        meta['property'] = P
        meta['confirmed_by_lead'] = {'how': 'scratch worktree (mutation agent round) for %s at /repo HEAD of that time: demo on unmodified build, git apply patch.diff, cmake --build, ctest (80 tests), demo again, revert' % P,
                                     'result': line}
        json.dump(meta, open(os.path.join(dst, 'meta.json'), 'w'), indent=1)
        print('imported', dst)
