
#include <stdint.h>
#include <stddef.h>
#include <stdbool.h>
typedef uint16_t XMLCh; typedef size_t XMLSize_t; typedef uint64_t XMLFileLoc; typedef uint8_t XMLByte;
#ifndef kCharBufSize
#define kCharBufSize 16
#endif
#define gFirstNameCharMask 0x2
#define gNameCharMask 0x4
struct XMLReader { XMLSize_t fCharIndex; XMLCh fCharBuf[kCharBufSize]; XMLSize_t fCharsAvail; XMLFileLoc fCurCol; bool fNoMore; const XMLByte* fgCharCharsTable; };
XMLSize_t BUFLEN; /* abstract view of the XMLBuffer: only its length */
typedef struct XMLBuffer XMLBuffer;
#define fCharIndex (self->fCharIndex)
#define fCharBuf (self->fCharBuf)
#define fCharsAvail (self->fCharsAvail)
#define fCurCol (self->fCurCol)
#define fNoMore (self->fNoMore)
#define fgCharCharsTable (self->fgCharCharsTable)
XMLByte TABLE[1];
bool XMLReader_isFirstNameChar(struct XMLReader* self, XMLCh c) __CPROVER_requires(1) __CPROVER_assigns() __CPROVER_ensures(1);
bool XMLReader_isNameChar(struct XMLReader* self, XMLCh c) __CPROVER_requires(1) __CPROVER_assigns() __CPROVER_ensures(1);
void XMLBuffer_append_n(XMLBuffer* b, const XMLCh* chars, XMLSize_t count)
__CPROVER_requires(count >= 1 && __CPROVER_r_ok(chars, count*sizeof(XMLCh)))
__CPROVER_assigns(BUFLEN)
__CPROVER_ensures(BUFLEN == __CPROVER_old(BUFLEN) + count)
;
bool XMLBuffer_isEmpty(XMLBuffer* b)
__CPROVER_assigns()
__CPROVER_ensures(__CPROVER_return_value == (BUFLEN==0))
;
bool XMLReader_refreshCharBuffer(struct XMLReader* self)
__CPROVER_requires(fCharIndex <= fCharsAvail && fCharsAvail <= kCharBufSize)
__CPROVER_assigns(fCharIndex, fCharsAvail, fNoMore, __CPROVER_object_whole(fCharBuf))
__CPROVER_ensures(fCharsAvail <= kCharBufSize)
__CPROVER_ensures(__CPROVER_return_value ==> (fCharIndex == 0 && fCharsAvail >= 1))
__CPROVER_ensures(!__CPROVER_return_value ==> (fCharIndex == fCharsAvail))
;
#define toFill (*toFill_p)
bool XMLReader_getName(struct XMLReader* self, XMLBuffer* toFill_p, const bool token)
__CPROVER_requires(__CPROVER_rw_ok(self, sizeof(*self)) && fgCharCharsTable == TABLE)
__CPROVER_requires(fCharIndex <= fCharsAvail && fCharsAvail <= kCharBufSize)
__CPROVER_requires(BUFLEN < 1000000)
__CPROVER_assigns(fCharIndex, fCharsAvail, fCurCol, fNoMore, __CPROVER_object_whole(fCharBuf), BUFLEN)
__CPROVER_ensures(fCharIndex <= fCharsAvail && fCharsAvail <= kCharBufSize)
{
    
    
    if (fCharIndex == fCharsAvail)
    {
        if (!XMLReader_refreshCharBuffer(self))
            return false;
    }

    XMLSize_t charIndex_start = fCharIndex;

    
    
    
    if (!token)
    {
        if ((fCharBuf[fCharIndex] >= 0xD800) && (fCharBuf[fCharIndex] <= 0xDB7F)) {
            
            if (fCharIndex+1 == fCharsAvail)
            {
                if (!XMLReader_refreshCharBuffer(self))
                    return false;
                
                charIndex_start = fCharIndex;
            }
            if ((fCharBuf[fCharIndex+1] < 0xDC00) || (fCharBuf[fCharIndex+1] > 0xDFFF))
                return false;

            
            fCharIndex += 2;
        }
        else {
            if (!XMLReader_isFirstNameChar(self,fCharBuf[fCharIndex]))
                return false;

            
            fCharIndex ++;
        }

    }

    
    
    while (true)
__CPROVER_assigns(fCharIndex, fCharsAvail, fCurCol, fNoMore, __CPROVER_object_whole(fCharBuf), charIndex_start, BUFLEN)
__CPROVER_loop_invariant(fCharIndex <= fCharsAvail && fCharsAvail <= kCharBufSize && charIndex_start <= fCharIndex)
    {
        while (fCharIndex < fCharsAvail)
__CPROVER_assigns(fCharIndex, fCharsAvail, fCurCol, fNoMore, __CPROVER_object_whole(fCharBuf), charIndex_start, BUFLEN)
__CPROVER_loop_invariant(fCharIndex <= fCharsAvail && fCharsAvail <= kCharBufSize && charIndex_start <= fCharIndex)
        {
            
            
            if ( (fCharBuf[fCharIndex] >= 0xD800) && (fCharBuf[fCharIndex] <= 0xDB7F) )
            {
                
                if (fCharIndex+1 == fCharsAvail)
                {
                    
                    if (fCharIndex != charIndex_start)
                    {
                        fCurCol += (XMLFileLoc)(fCharIndex - charIndex_start);
                        XMLBuffer_append_n(toFill_p, &fCharBuf[charIndex_start], fCharIndex - charIndex_start);
                    }

                    if (!XMLReader_refreshCharBuffer(self))
                        break;

                    charIndex_start = fCharIndex;
                }
                if ( (fCharBuf[fCharIndex+1] < 0xDC00) ||
                        (fCharBuf[fCharIndex+1] > 0xDFFF)  )
                    break;
                fCharIndex += 2;

            }
            else
            {
                if (!XMLReader_isNameChar(self,fCharBuf[fCharIndex]))
                    break;
                fCharIndex++;
            }
        }

        
        if (fCharIndex != charIndex_start)
        {
            fCurCol += (XMLFileLoc)(fCharIndex - charIndex_start);
            XMLBuffer_append_n(toFill_p, &fCharBuf[charIndex_start], fCharIndex - charIndex_start);
        }

        
        
        if ((fCharIndex < fCharsAvail) ||
             !XMLReader_refreshCharBuffer(self))
            break;

        charIndex_start = fCharIndex;
    }

    return !XMLBuffer_isEmpty(toFill_p);
}
struct XMLReader nondet_reader(void);
void harness(void){ bool token; struct XMLReader R = nondet_reader(); XMLSize_t bl; BUFLEN=bl; XMLReader_getName(&R, (XMLBuffer*)0, token); }
