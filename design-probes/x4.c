#include "pre.h"
int verif_thrown; int verif_throw_code;
static const XMLByte gUTFBytes[256] =
{
        0, 0, 0, 0, 0, 0, 0, 0, 0, 0, 0, 0, 0, 0, 0, 0
    ,   0, 0, 0, 0, 0, 0, 0, 0, 0, 0, 0, 0, 0, 0, 0, 0
    ,   0, 0, 0, 0, 0, 0, 0, 0, 0, 0, 0, 0, 0, 0, 0, 0
    ,   0, 0, 0, 0, 0, 0, 0, 0, 0, 0, 0, 0, 0, 0, 0, 0
    ,   0, 0, 0, 0, 0, 0, 0, 0, 0, 0, 0, 0, 0, 0, 0, 0
    ,   0, 0, 0, 0, 0, 0, 0, 0, 0, 0, 0, 0, 0, 0, 0, 0
    ,   0, 0, 0, 0, 0, 0, 0, 0, 0, 0, 0, 0, 0, 0, 0, 0
    ,   0, 0, 0, 0, 0, 0, 0, 0, 0, 0, 0, 0, 0, 0, 0, 0
    ,   0, 0, 0, 0, 0, 0, 0, 0, 0, 0, 0, 0, 0, 0, 0, 0
    ,   0, 0, 0, 0, 0, 0, 0, 0, 0, 0, 0, 0, 0, 0, 0, 0
    ,   0, 0, 0, 0, 0, 0, 0, 0, 0, 0, 0, 0, 0, 0, 0, 0
    ,   0, 0, 0, 0, 0, 0, 0, 0, 0, 0, 0, 0, 0, 0, 0, 0
    ,   0, 0, 1, 1, 1, 1, 1, 1, 1, 1, 1, 1, 1, 1, 1, 1
    ,   1, 1, 1, 1, 1, 1, 1, 1, 1, 1, 1, 1, 1, 1, 1, 1
    ,   2, 2, 2, 2, 2, 2, 2, 2, 2, 2, 2, 2, 2, 2, 2, 2
    ,   3, 3, 3, 3, 3, 3, 3, 3, 4, 4, 4, 4, 5, 5, 5, 5
};

static const XMLByte gUTFByteIndicator[6] =
{
    0x00, 0xC0, 0xE0, 0xF0, 0xF8, 0xFC
};
static const XMLByte gUTFByteIndicatorTest[6] =
{
    0x80, 0xE0, 0xF0, 0xF8, 0xFC, 0xFE
};

static const XMLUInt32 gUTFOffsets[6] =
{
    0, 0x3080, 0xE2080, 0x3C82080, 0xFA082080, 0x82082080
};

static const XMLByte gFirstByteMark[7] =
{
    0x00, 0x00, 0xC0, 0xE0, 0xF0, 0xF8, 0xFC
};
#define VERIF_RET
static inline void checkTrailingBytes(const XMLByte toCheck, const unsigned int trailingBytes, const unsigned int position)
{
    if((toCheck & 0xC0) != 0x80) { VTHROW(XMLExcepts_UTF8_FormatError); }
}
#undef VERIF_RET
#define VERIF_RET 0
#define bytesEaten (*bytesEaten_p)
XMLSize_t transcodeFrom(const XMLByte* const srcData, const XMLSize_t srcCount, XMLCh* const toFill, const XMLSize_t maxChars, XMLSize_t* bytesEaten_p, unsigned char* const charSizes)
{
    
    if (!srcCount || !maxChars)
        return 0;

    
    
    
    
    const XMLByte*  srcPtr = srcData;
    const XMLByte*  srcEnd = srcPtr + srcCount;
    XMLCh*          outPtr = toFill;
    XMLCh*          outEnd = outPtr + maxChars;
    unsigned char*  sizePtr = charSizes;



    
    
    
    
    while ((srcPtr < srcEnd) && (outPtr < outEnd))
    {
        
        if (*srcPtr <= 127)
        {
            
            const XMLByte* srcPtr_save = srcPtr;
            const XMLSize_t chunkSize = (srcEnd-srcPtr)<(outEnd-outPtr)?(srcEnd-srcPtr):(outEnd-outPtr);
            for(XMLSize_t i=0;i<chunkSize && *srcPtr <= 127;++i)
                *outPtr++ = ((XMLCh)(*srcPtr++));
            memset(sizePtr,1,srcPtr - srcPtr_save);
            sizePtr += srcPtr - srcPtr_save;
            if (srcPtr == srcEnd || outPtr == outEnd)
                break;
        }

        
        const unsigned int trailingBytes = gUTFBytes[*srcPtr];

        
        
        
        
        
        
        
        
        if (srcPtr + trailingBytes >= srcEnd)
            break;

        
        
        

        
        if((gUTFByteIndicatorTest[trailingBytes] & *srcPtr) != gUTFByteIndicator[trailingBytes]) {
            char pos[2] = {(char)0x31, 0}; 
            char len[2] = {(char)(trailingBytes+0x31), 0};
            char byte[2] = {(char)*srcPtr,0};
            ThrowXMLwithMemMgr3(UTFDataFormatException, XMLExcepts_UTF8_FormatError, pos, byte, len, getMemoryManager());
        }

        









































        XMLUInt32 tmpVal = 0;

        switch(trailingBytes)
        {
            case 1 :
                
                
                
                
                checkTrailingBytes(*(srcPtr+1), 1, 1); if (verif_thrown) return VERIF_RET;

                tmpVal = *srcPtr++;
                tmpVal <<= 6;
                tmpVal += *srcPtr++;

                break;
            case 2 :
                
                
                
                if (( *srcPtr == 0xE0) && ( *(srcPtr+1) < 0xA0)) 
                {
                    char byte0[2] = {(char)*srcPtr    ,0};
                    char byte1[2] = {(char)*(srcPtr+1),0};

                    ThrowXMLwithMemMgr2(UTFDataFormatException
                                      , XMLExcepts_UTF8_Invalid_3BytesSeq
                                      , byte0
                                      , byte1
                                      , getMemoryManager());
                }

                checkTrailingBytes(*(srcPtr+1), 2, 1); if (verif_thrown) return VERIF_RET;
                checkTrailingBytes(*(srcPtr+2), 2, 2); if (verif_thrown) return VERIF_RET;

                
                
                
                
                
                
                
                
                
                
                
                
                
                
                
                
                
                
                
                
                
                

                if ((*srcPtr == 0xED) && (*(srcPtr+1) >= 0xA0))
                {
                    char byte0[2] = {(char)*srcPtr,    0};
                    char byte1[2] = {(char)*(srcPtr+1),0};

                     ThrowXMLwithMemMgr2(UTFDataFormatException
                              , XMLExcepts_UTF8_Irregular_3BytesSeq
                              , byte0
                              , byte1
                              , getMemoryManager());
                }

                tmpVal = *srcPtr++;
                tmpVal <<= 6;
                tmpVal += *srcPtr++;
                tmpVal <<= 6;
                tmpVal += *srcPtr++;

                break;
            case 3 : 
                
                
                
                
                
                if (((*srcPtr == 0xF0) && (*(srcPtr+1) < 0x90)) ||
                    ((*srcPtr == 0xF4) && (*(srcPtr+1) > 0x8F))  )
                {
                    char byte0[2] = {(char)*srcPtr    ,0};
                    char byte1[2] = {(char)*(srcPtr+1),0};

                    ThrowXMLwithMemMgr2(UTFDataFormatException
                                      , XMLExcepts_UTF8_Invalid_4BytesSeq
                                      , byte0
                                      , byte1
                                      , getMemoryManager());
                }

                checkTrailingBytes(*(srcPtr+1), 3, 1); if (verif_thrown) return VERIF_RET;
                checkTrailingBytes(*(srcPtr+2), 3, 2); if (verif_thrown) return VERIF_RET;
                checkTrailingBytes(*(srcPtr+3), 3, 3); if (verif_thrown) return VERIF_RET;
                
                tmpVal = *srcPtr++;
                tmpVal <<= 6;
                tmpVal += *srcPtr++;
                tmpVal <<= 6;
                tmpVal += *srcPtr++;
                tmpVal <<= 6;
                tmpVal += *srcPtr++;

                break;
            default: 

                







                char len[2]  = {(char)(trailingBytes+0x31), 0};
                char byte[2] = {(char)*srcPtr,0};

                ThrowXMLwithMemMgr2(UTFDataFormatException
                                  , XMLExcepts_UTF8_Exceeds_BytesLimit
                                  , byte
                                  , len
                                  , getMemoryManager());

                break;
        }


        
        
        
        
        tmpVal -= gUTFOffsets[trailingBytes];

        
        
        
        
        
        if (!(tmpVal & 0xFFFF0000))
        {
            *sizePtr++ = trailingBytes + 1;
            *outPtr++ = ((XMLCh)(tmpVal));
        }
         else if (tmpVal > 0x10FFFF)
        {
            
            
            
            
            
            
            
            if ((outPtr - toFill) > 32)
                break;

            ThrowXMLwithMemMgr(TranscodingException, XMLExcepts_Trans_BadSrcSeq, getMemoryManager());
        }
         else
        {
            
            
            
            
            
            if (outPtr + 1 >= outEnd)
            {
                srcPtr -= (trailingBytes + 1);
                break;
            }

            
            tmpVal -= 0x10000;
            *sizePtr++ = trailingBytes + 1;
            *outPtr++ = ((XMLCh)((tmpVal >> 10) + 0xD800));

            
            
            
            
            
            *sizePtr++ = 0;
            *outPtr++ = ((XMLCh)((tmpVal & 0x3FF) + 0xDC00));
        }
    }

    
    bytesEaten = srcPtr - srcData;

    
    return outPtr - toFill;
}


/* spec: Unicode Table 3-7 well-formed UTF-8; returns length (1..4) or 0 if ill-formed/truncated within n bytes; -1 = truncated-but-possibly-valid prefix */
static int spec_utf8_len(const XMLByte* b, XMLSize_t n, XMLUInt32* cp){
  if(n==0) return -1;
  XMLByte b0=b[0];
  if(b0<=0x7F){*cp=b0;return 1;}
  if(b0>=0xC2&&b0<=0xDF){ if(n<2) return -1; if((b[1]&0xC0)!=0x80) return 0; *cp=((b0&0x1F)<<6)|(b[1]&0x3F); return 2;}
  if(b0>=0xE0&&b0<=0xEF){ if(n<3) return -1; XMLByte lo=(b0==0xE0)?0xA0:0x80, hi=(b0==0xED)?0x9F:0xBF; if(b[1]<lo||b[1]>hi) return 0; if((b[2]&0xC0)!=0x80) return 0; *cp=((b0&0x0F)<<12)|((b[1]&0x3F)<<6)|(b[2]&0x3F); return 3;}
  if(b0>=0xF0&&b0<=0xF4){ if(n<4) return -1; XMLByte lo=(b0==0xF0)?0x90:0x80, hi=(b0==0xF4)?0x8F:0xBF; if(b[1]<lo||b[1]>hi) return 0; if((b[2]&0xC0)!=0x80) return 0; if((b[3]&0xC0)!=0x80) return 0; *cp=((b0&0x07)<<18)|((b[1]&0x3F)<<12)|((b[2]&0x3F)<<6)|(b[3]&0x3F); return 4;}
  return 0;
}
XMLByte SRC[4]; XMLCh OUT[4]; unsigned char SZ[4];
void harness(void){ XMLSize_t n, m, be=0; __CPROVER_assume(n>=1 && n<=4 && m>=2 && m<=4); verif_thrown=0;
  XMLUInt32 cp=0; int L=spec_utf8_len(SRC,n,&cp);
  XMLSize_t r = transcodeFrom(SRC, n, OUT, m, &be, SZ);
  if(L==0) __CPROVER_assert(verif_thrown, "ill-formed first sequence is rejected");
  if(L>0) { __CPROVER_assert(verif_thrown || r>=1, "legal first sequence decoded");
    if(!verif_thrown){ if(cp<0x10000){ __CPROVER_assert(OUT[0]==cp && SZ[0]==L,"bmp value"); } else { __CPROVER_assert(r>=2 && OUT[0]==0xD800+((cp-0x10000)>>10) && OUT[1]==0xDC00+((cp-0x10000)&0x3FF) && SZ[0]==L && SZ[1]==0,"surrogate pair"); } } }
  if(L<0) __CPROVER_assert(!verif_thrown && r==0 && be==0, "truncated first sequence: nothing consumed");
}
