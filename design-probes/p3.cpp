#include <xercesc/util/PlatformUtils.hpp>
#include <xercesc/util/TransService.hpp>
#include <xercesc/util/XMLUTF8Transcoder.hpp>
#include <xercesc/util/XMLUCS4Transcoder.hpp>
#include <xercesc/framework/XMLFormatter.hpp>
#include <xercesc/framework/MemBufFormatTarget.hpp>
#include <xercesc/util/XMLUniDefs.hpp>
#include <cstdio>
#include <cstring>
#include <unistd.h>
using namespace xercesc;
int main(int argc,char**argv){
  XMLPlatformUtils::Initialize();
  int which=atoi(argv[1]);
  if(which==2){ // F2: UTF8 transcodeTo RepChar overflow
    XMLUTF8Transcoder t(XMLUni::fgUTF8EncodingString, 1024);
    XMLCh src[3]={0x41,0xDBFF,0xFFFF};
    XMLByte* out=new XMLByte[1]; XMLSize_t eaten=0;
    XMLSize_t n=t.transcodeTo(src,3,out,1,eaten,XMLTranscoder::UnRep_RepChar);
    printf("F2: wrote %lu bytes into 1-byte buffer, eaten=%lu\n",(unsigned long)n,(unsigned long)eaten);
  }
  if(which==8){ // F8: UCS4 out-of-range
    XMLUCS4Transcoder t(XMLUni::fgUCS4LEncodingString, 1024, false);
    unsigned int src[2]={0x00110000u,0x0000D800u}; XMLCh out[8]; unsigned char sz[8]; XMLSize_t eaten=0;
    try { XMLSize_t n=t.transcodeFrom((XMLByte*)src,8,out,8,eaten,sz); printf("F8: accepted, %lu chars:",(unsigned long)n); for(XMLSize_t i=0;i<n;i++)printf(" %04X",out[i]); printf("\n"); } catch(...) { printf("F8: rejected\n"); }
  }
  if(which==7){ // F7: formatter loop on trailing lead surrogate
    alarm(5);
    MemBufFormatTarget tgt; XMLFormatter f("UTF-8","1.0",&tgt,XMLFormatter::NoEscapes,XMLFormatter::UnRep_CharRef);
    XMLCh s[3]={0x41,0xD800,0};
    f.formatBuf(s,2,XMLFormatter::NoEscapes);
    printf("F7: returned, %lu bytes\n",(unsigned long)tgt.getLen());
  }
  XMLPlatformUtils::Terminate();
}
