#include <stdint.h>
#include <stddef.h>
#include <stdbool.h>
typedef uint16_t XMLCh;
static bool spec_ws(XMLCh c){ return c==0x20||c==0x9||c==0xA||c==0xD; }
struct R { size_t idx; size_t avail; XMLCh buf[64]; bool nomore; };
bool refresh(struct R* self)
__CPROVER_requires(__CPROVER_is_fresh(self,sizeof(*self)) && self->idx<=self->avail && self->avail<=64)
__CPROVER_assigns(self->idx, self->avail, self->nomore, __CPROVER_object_whole(self->buf))
__CPROVER_ensures(self->idx==0 && self->avail<=64 && __CPROVER_return_value==(self->avail!=0))
;
size_t lenws(const XMLCh* s, size_t n)
__CPROVER_requires(n<=32 && __CPROVER_is_fresh(s, 2*(n?n:1)))
__CPROVER_assigns()
__CPROVER_ensures(__CPROVER_return_value<=n)
__CPROVER_ensures(__CPROVER_return_value<n ==> !spec_ws(s[__CPROVER_return_value]))
{
  size_t i=0;
  do
    __CPROVER_assigns(i)
    __CPROVER_loop_invariant(i<=n)
  {
    if (i>=n || !spec_ws(s[i])) break;
    i++;
  } while(1);
  return i;
}
bool skipc(struct R* self, XMLCh c)
__CPROVER_requires(__CPROVER_is_fresh(self,sizeof(*self)) && self->idx<=self->avail && self->avail<=64)
__CPROVER_assigns(self->idx, self->avail, self->nomore, __CPROVER_object_whole(self->buf))
__CPROVER_ensures(self->idx<=self->avail && self->avail<=64)
{
  if (self->idx==self->avail) { if(!refresh(self)) return false; }
  if (self->buf[self->idx]==c) { self->idx++; return true; }
  return false;
}
void h1(void){ const XMLCh*s; size_t n; lenws(s,n);}
void h2(void){ struct R*r; XMLCh c; skipc(r,c);}
