set -e
f=$1; shift
rm -f a.gb b1.gb b.gb
goto-cc --function harness $f -o a.gb
goto-instrument --apply-loop-contracts a.gb b1.gb > gi1.log 2>&1 || { tail -5 gi1.log; exit 2; }
goto-instrument --enforce-contract XMLReader_getName --replace-call-with-contract XMLReader_refreshCharBuffer --replace-call-with-contract XMLBuffer_append_n --replace-call-with-contract XMLBuffer_isEmpty --replace-call-with-contract XMLReader_isNameChar --replace-call-with-contract XMLReader_isFirstNameChar b1.gb b.gb > gi2.log 2>&1 || { tail -5 gi2.log; exit 2; }
/usr/bin/time -f "%es %MKB" timeout ${T:-120} cbmc --bounds-check --pointer-check b.gb --verbosity 8 "$@" 2>&1 | grep "FAIL\|^\*\*\|KB\|VERIF\|rror\|variables" | head -30
