import re,sys
def strip_comments(s):
    out=[];i=0;n=len(s)
    while i<n:
        if s.startswith('//',i):
            j=s.find('\n',i); j=n if j<0 else j; i=j
        elif s.startswith('/*',i):
            j=s.find('*/',i)+2; out.append('\n'*s.count('\n',i,j)); i=j
        elif s[i] in '"\'':
            q=s[i]; j=i+1
            while s[j]!=q:
                if s[j]=='\\': j+=1
                j+=1
            out.append(s[i:j+1]); i=j+1
        else: out.append(s[i]); i+=1
    return ''.join(out)
def body_at(src,sig):
    i=src.index(sig); b=src.index('{',i); d=0
    for j in range(b,len(src)):
        if src[j]=='{': d+=1
        elif src[j]=='}':
            d-=1
            if d==0: return src[b:j+1]
