
#include <stdint.h>
#include <stddef.h>
#include <stdbool.h>
typedef uint16_t XMLCh; typedef size_t XMLSize_t; typedef uint64_t XMLFileLoc; typedef uint8_t XMLByte; typedef uint64_t XMLFilePos;
#ifndef kCharBufSize
#define kCharBufSize 8
#endif
#define chSpace 0x20
enum { XMLRecognizer_EBCDIC = 0 };
enum { Type_PE, Type_General }; enum { RefFrom_Literal, RefFrom_NonLiteral };
enum { XMLExcepts_Reader_EncodingStrRequired=1, XMLExcepts_Trans_CantCreateCvtrFor };
int verif_thrown, verif_throw_code;
#define VERIF_THROW(t,c) do { verif_thrown=1; verif_throw_code=(c); return 0; } while(0)
struct XMLReader { XMLSize_t fCharIndex; XMLCh fCharBuf[kCharBufSize]; XMLSize_t fCharsAvail; unsigned char fCharSizeBuf[kCharBufSize]; unsigned int fCharOfsBuf[kCharBufSize];
  int fEncoding; XMLCh* fEncodingStr; bool fNoMore; int fRefFrom; bool fSentTrailingSpace; XMLFilePos fSrcOfsBase; bool fCalculateSrcOfs; void* fTranscoder; int fType; void* fMemoryManager; };
#define fCharIndex (self->fCharIndex)
#define fCharBuf (self->fCharBuf)
#define fCharsAvail (self->fCharsAvail)
#define fCharSizeBuf (self->fCharSizeBuf)
#define fCharOfsBuf (self->fCharOfsBuf)
#define fEncoding (self->fEncoding)
#define fEncodingStr (self->fEncodingStr)
#define fNoMore (self->fNoMore)
#define fRefFrom (self->fRefFrom)
#define fSentTrailingSpace (self->fSentTrailingSpace)
#define fSrcOfsBase (self->fSrcOfsBase)
#define fCalculateSrcOfs (self->fCalculateSrcOfs)
#define fTranscoder (self->fTranscoder)
#define fType (self->fType)
#define fMemoryManager (self->fMemoryManager)
/* ghosts (harness-owned, in no assigns clause) */
XMLSize_t G; XMLSize_t OLDIDX; XMLSize_t OLDAVAIL; struct { XMLCh a[kCharBufSize]; } OLDBUF;
void* XMLTransService_makeNewTranscoderFor(const XMLCh* name, int* fail, XMLSize_t bs, void* mm)
__CPROVER_requires(1) __CPROVER_assigns(*fail) __CPROVER_ensures(1);
XMLSize_t XMLReader_xcodeMoreChars(struct XMLReader* self, XMLCh* const bufToFill, unsigned char* const charSizes, const XMLSize_t maxChars)
__CPROVER_requires(maxChars >= 1 && __CPROVER_w_ok(bufToFill, maxChars*sizeof(XMLCh)) && __CPROVER_w_ok(charSizes, maxChars))
__CPROVER_assigns(__CPROVER_object_upto(bufToFill, maxChars*sizeof(XMLCh)), __CPROVER_object_upto(charSizes, maxChars), verif_thrown, verif_throw_code)
__CPROVER_ensures(__CPROVER_return_value <= maxChars)
;
bool XMLReader_refreshCharBuffer(struct XMLReader* self)
__CPROVER_requires(__CPROVER_rw_ok(self, sizeof(*self)))
__CPROVER_requires(fCharIndex <= fCharsAvail && fCharsAvail <= kCharBufSize && !verif_thrown)
__CPROVER_requires(OLDIDX == fCharIndex && OLDAVAIL == fCharsAvail && G < kCharBufSize)
__CPROVER_requires((OLDIDX + G < kCharBufSize) ==> OLDBUF.a[OLDIDX + G] == fCharBuf[OLDIDX + G])
__CPROVER_assigns(__CPROVER_object_whole(self), verif_thrown, verif_throw_code)
__CPROVER_ensures(verif_thrown || (fCharIndex <= fCharsAvail && fCharsAvail <= kCharBufSize))
__CPROVER_ensures((!verif_thrown && __CPROVER_return_value) ==> (fCharsAvail >= 1))
/* refill transparency: spare characters are preserved, in order, at the front */
__CPROVER_ensures((!verif_thrown && __CPROVER_return_value && !(OLDAVAIL-OLDIDX==kCharBufSize) && G < OLDAVAIL - OLDIDX) ==> (fCharIndex == 0 && fCharBuf[G] == OLDBUF.a[OLDIDX + G] && fCharsAvail >= OLDAVAIL - OLDIDX))
{
    
    if (fNoMore)
        return false;

    XMLSize_t startInd;

    
    const XMLSize_t spareChars = fCharsAvail - fCharIndex;

    
    if (spareChars == kCharBufSize)
        return true;

    
    
    
    
    
    
    
    
    
    if (!fTranscoder)
    {
        if (fEncoding == XMLRecognizer_EBCDIC)
            VERIF_THROW(RuntimeException, XMLExcepts_Reader_EncodingStrRequired);

        
        int failReason;
        fTranscoder = XMLTransService_makeNewTranscoderFor(fEncodingStr, &failReason, kCharBufSize, fMemoryManager);

        if (!fTranscoder)
        {
            VERIF_THROW(TranscodingException, XMLExcepts_Trans_CantCreateCvtrFor);
        }
    }

    
    
    
    
    if (fCalculateSrcOfs) {
        for (startInd = 0; startInd < fCharIndex; startInd++)
__CPROVER_assigns(startInd, fSrcOfsBase)
__CPROVER_loop_invariant(startInd <= fCharIndex)

            fSrcOfsBase += fCharSizeBuf[startInd];
    }

    
    
    
    
    startInd = 0;
    if (spareChars)
    {
        for (XMLSize_t index = fCharIndex; index < fCharsAvail; index++)
__CPROVER_assigns(index, startInd, __CPROVER_object_upto(fCharBuf, sizeof(fCharBuf)), __CPROVER_object_upto(fCharSizeBuf, sizeof(fCharSizeBuf)))
__CPROVER_loop_invariant(fCharIndex <= index && index <= fCharsAvail && startInd == index - fCharIndex)
__CPROVER_loop_invariant((G < startInd) ==> (fCharBuf[G] == OLDBUF.a[OLDIDX + G]))
__CPROVER_loop_invariant((G >= startInd && OLDIDX + G < kCharBufSize) ==> (fCharBuf[OLDIDX + G] == OLDBUF.a[OLDIDX + G]))

        {
            fCharBuf[startInd] = fCharBuf[index];
            fCharSizeBuf[startInd] = fCharSizeBuf[index];
            startInd++;
        }
    }

    
    
    
    
    fCharsAvail = XMLReader_xcodeMoreChars(self, 
        &fCharBuf[startInd]
        , &fCharSizeBuf[startInd]
        , kCharBufSize - spareChars
    );

    
    fCharsAvail += spareChars;

    
    fCharIndex = 0;

    
    
    
    
    
    
    if (!fCharsAvail
    &&  (fType == Type_PE)
    &&  (fRefFrom == RefFrom_NonLiteral)
    &&  !fSentTrailingSpace)
    {
        fCharBuf[0] = chSpace;
        fCharsAvail = 1;
        fSentTrailingSpace = true;
    }

    
    
    
    
    
    if (!fCharsAvail)
        fNoMore = true;

    
    if (fCalculateSrcOfs)
    {
        unsigned int last = 0;
        fCharOfsBuf[0] = 0;
        for (XMLSize_t index = 1; index < fCharsAvail; ++index)
__CPROVER_assigns(index, last, __CPROVER_object_upto(fCharOfsBuf, sizeof(fCharOfsBuf)))
__CPROVER_loop_invariant(1 <= index && (index <= fCharsAvail || fCharsAvail == 0))
 {
            fCharOfsBuf[index] = last+fCharSizeBuf[index-1];
            last = fCharOfsBuf[index];
            
            
            
            
        }
    }

    return (fCharsAvail != 0);
}
struct XMLReader nondet_reader(void);
void harness(void){ struct XMLReader R = nondet_reader(); verif_thrown=0; XMLReader_refreshCharBuffer(&R); }
