#include <stdint.h>
#include <stddef.h>
size_t copy8(const uint8_t *s, size_t n, uint16_t* out, size_t m)
__CPROVER_requires(n <= MAXN && m<=MAXN && __CPROVER_is_fresh(s, n?n:1) && __CPROVER_is_fresh(out, (m?m:1)*2))
__CPROVER_ensures(__CPROVER_return_value <= m)
__CPROVER_assigns(__CPROVER_object_whole(out))
{
  const uint8_t* sp=s; const uint8_t* se=s+n; uint16_t* op=out; uint16_t* oe=out+m;
  while (sp<se && op<oe)
    __CPROVER_assigns(sp, op, __CPROVER_object_whole(out))
    __CPROVER_loop_invariant(__CPROVER_same_object(sp,s) && __CPROVER_POINTER_OFFSET(sp) <= n && __CPROVER_same_object(op,out) && __CPROVER_POINTER_OFFSET(op) <= 2*m && __CPROVER_POINTER_OFFSET(op)%2==0)
  {
    if (*sp < 128) {
      const size_t chunk = (se-sp)<(oe-op)?(se-sp):(oe-op);
      for (size_t i=0;i<chunk && *sp<128;++i)
        __CPROVER_assigns(i, sp, op, __CPROVER_object_whole(out))
        __CPROVER_loop_invariant(i<=chunk && __CPROVER_same_object(sp,s) && __CPROVER_POINTER_OFFSET(sp) == __CPROVER_POINTER_OFFSET(__CPROVER_loop_entry(sp))+i && __CPROVER_same_object(op,out) && __CPROVER_POINTER_OFFSET(op) == __CPROVER_POINTER_OFFSET(__CPROVER_loop_entry(op))+2*i)
        *op++ = *sp++;
      if (sp==se || op==oe) break;
    }
    *op++ = *sp++; 
  }
  return op-out;
}
void harness(void){ const uint8_t*a; size_t n; uint16_t*o; size_t m; copy8(a,n,o,m);}
