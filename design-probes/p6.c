#include <stdint.h>
#include <stdbool.h>
typedef uint16_t XMLCh;
#include "tab10.h"
#define gXMLCharMask 0x40
#define gWhitespaceCharMask 0x80
static bool spec_char10(XMLCh c){ return c==0x9||c==0xA||c==0xD||(c>=0x20&&c<=0xD7FF)||(c>=0xE000&&c<=0xFFFD); }
bool isXMLChar(const XMLCh toCheck)
__CPROVER_ensures(__CPROVER_return_value == spec_char10(toCheck))
{ return ((fgCharCharsTable1_0[toCheck] & gXMLCharMask) != 0); }
void h(void){ XMLCh c; isXMLChar(c);}
