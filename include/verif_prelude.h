/* Prelude for extracted units. Target model: LP64 little-endian, XMLCh = uint16_t (DESIGN §4 item 4). */
#ifndef VERIF_PRELUDE_H
#define VERIF_PRELUDE_H
#include <stdint.h>
#include <stddef.h>
#include <stdbool.h>
#include <string.h>
typedef uint16_t XMLCh;
typedef uint8_t  XMLByte;
typedef size_t   XMLSize_t;
typedef ptrdiff_t XMLSSize_t;
typedef uint64_t XMLFileLoc;
typedef uint64_t XMLFilePos;
typedef uint16_t XMLUInt16;
typedef int16_t  XMLInt16;
typedef uint32_t XMLUInt32;
typedef int32_t  XMLInt32;
typedef uint64_t XMLUInt64;
typedef int64_t  XMLInt64;
typedef uint32_t UCS4Ch;
typedef uint16_t UTF16Ch;
typedef uint16_t XMLUTF16Ch;
typedef void MemoryManager;

#include "xerces_consts.h"   /* generated on every run from the real headers (vf/gen_consts.py) */

/* R8: exception model: set ghost, return the function's default value */
extern int verif_thrown, verif_throw_type, verif_throw_code;
#ifdef VERIF_DEFINE_GHOSTS
int verif_thrown, verif_throw_type, verif_throw_code;
#endif
#define VERIF_THROW(T, C) do { verif_thrown = 1; verif_throw_type = VT_##T; verif_throw_code = (C); return VERIF_RET; } while (0)
#define VERIF_RET
/* R14: a throw inside a try region jumps to that region's handlers */
#define VERIF_THROW_TO(T, C, L) do { verif_thrown = 1; verif_throw_type = VT_##T; verif_throw_code = (C); goto L; } while (0)

/* canary: in the canary build this assertion must FAIL (precondition satisfiable, call returns) */
#ifdef VERIF_CANARY_BUILD
#define VERIF_CANARY(tag) __CPROVER_assert(0, "canary " tag)
#else
#define VERIF_CANARY(tag) ((void)0)
#endif

/* harness input convention: VERIF_INPUT(x) gives the already-declared object x (scalar or struct; wrap arrays in a
 * single-member struct) an arbitrary value under cbmc and loads it from the replay file in the native build */
#ifndef VERIF_NATIVE
/* no do-while here: a loop in the harness makes legacy --apply-loop-contracts inline the callee into the harness,
 * which silently bypasses --enforce-contract (probed) */
#define VERIF_INPUT(x) { __typeof__(x) verif_nd_; (x) = verif_nd_; }
#define VERIF_ASSUME(c) __CPROVER_assume(c)
#define VERIF_ASSERT(c, msg) __CPROVER_assert((c), msg)
#else
void verif_native_load(const char *name, void *p, size_t n);
void verif_native_assume_failed(const char *c);
void verif_native_assert_failed(const char *msg);
void verif_native_post_failed(const char *fn, int clause);
#define VERIF_INPUT(x) verif_native_load(#x, &(x), sizeof(x))
/* expressions, so that `if (c) __CPROVER_assert(..); else ..` in a harness compiles natively as it does under cbmc */
#define VERIF_ASSUME(c) ((c) ? (void)0 : verif_native_assume_failed(#c))
#define VERIF_ASSERT(c, msg) ((c) ? (void)0 : verif_native_assert_failed(msg))
#define __CPROVER_assume(c) VERIF_ASSUME(c)
#define __CPROVER_assert(c, msg) VERIF_ASSERT(c, msg)
#endif

#ifdef VERIF_NATIVE
/* native (gcc) build of the same text for the differential / replay drivers: contracts vanish */
#define __CPROVER_requires(x)
#define __CPROVER_ensures(x)
#define __CPROVER_assigns(...)
#define __CPROVER_loop_invariant(x)
#define __CPROVER_decreases(...)
#define __CPROVER_loop_entry(x) (x)
#endif
#endif
